"""C18 (event catalogue consistency) - spec/Catalogue.tla.

Declared (ovnievents / ovnidump), handled (ovniemu) and decoded events of the
eight emulation models must coincide.  The catalogue is the committed table
spec/data/events.json; it is re-encoded here for TLC (strings cannot be
indexed in TLC: characters are passed as indices, description templates as
token lists) and never regenerated from the tree under test.

 1. LISTED = CATALOGUE: the output of the freshly built `ovnievents` is parsed
    and handed to TLC, which reports the set difference with the catalogue in
    both directions (lines LST).
 2. LISTED <=> HANDLED: TLC explores a bounded instance of the reference
    semantics per model and prints, for every listed event, a shortest history
    after which it is accepted (its witness context, lines WIT), and walks the
    223 x 223 code space (bytes 33..255) of every model from the canonical context (invariant
    ProbeConsistent), printing the unlisted codes that are accepted (ACC);
    all other unlisted codes are rejected.  Every witness and every probed
    code is replayed on `ovniemu -l` as a one-probe trace; the observation is
    whether the emulator processed the probe event or refused exactly it.
 3. DECODING: for every listed event and 8 (thorough: 64) argument vectors the payload
    bytes are handed to TLC, whose Decode operator gives the description text
    (lines DEC); `ovnidump` on a trace holding those events must print it.

Nothing here decides an outcome: inputs are enumerated and encoded, binaries
run, observations projected; all expected values are TLC output.
"""
import html
import json
import os
import random
import re
import shutil
import struct

from vlib import core, obs, emu, synth, emuhist

TAGS = ("LST", "LSX", "DEC", "SYS", "WIT", "ACC", "ACCE", "SUM", "SUME")
# (configuration, how it must fail, why, model it is run on)
NEGATIVES = [
    ("Catalogue_NegNoExc.cfg", "inv", "no excepted codes: the ignored value byte of OB?/OU? must break ProbeConsistent", "O"),
    ("Catalogue_NegDrop.cfg", "inv", "catalogue without the events the tables ignore: a handled unlisted code must break ProbeConsistent", "V"),
    ("Catalogue_NegShort.cfg", "post", "histories of at most 2 events: ListedAreProcessed (post-condition) must fail", "V"),
    ("Catalogue_NegDec.cfg", "assume", "two's complement without the +1: RendererSelfTest must fail", "K"),
]
PRINTABLE = [chr(i) for i in range(32, 256)]          # character table handed to TLC: every byte from 32 on
NIDX = len(PRINTABLE) - 1                              # (the codes of the catalogue are printable ASCII, 1..94)
TYPE_PACK = {"u8": "<B", "i8": "<b", "u16": "<H", "i16": "<h", "u32": "<I", "i32": "<i",
             "u64": "<Q", "i64": "<q"}


def idx(ch):
    """a category / value character as the index TLC uses (code - 32, 1..94)"""
    return ord(ch) - 32


def chr_of(i):
    return chr(i + 32)


# --------------------------------------------------------------------------
# the committed catalogue, re-encoded

def tokenise(desc):
    """Description template -> tokens {k: lit|arg, s, f}.  '%%' is a literal
    percent, '%<fmt>{name}' a placeholder with printf format <fmt> ('' = the
    default of the argument type).  Pure re-encoding of the committed text."""
    toks = []
    lit = ""
    i = 0
    while i < len(desc):
        c = desc[i]
        if c != "%":
            lit += c
            i += 1
            continue
        if desc[i + 1:i + 2] == "%":
            lit += "%"
            i += 2
            continue
        j = desc.find("{", i)
        k = desc.find("}", j) if j >= 0 else -1
        if j < 0 or k < 0:
            raise core.MachineryError("events.json: malformed template %r" % desc)
        if lit:
            toks.append({"k": "lit", "s": lit, "f": ""})
            lit = ""
        toks.append({"k": "arg", "s": desc[j + 1:k], "f": desc[i + 1:j]})
        i = k + 1
    if lit:
        toks.append({"k": "lit", "s": lit, "f": ""})
    return toks


def parse_sig(sig):
    """'(i32 cpu, u64 tag)' -> [{t, n}]"""
    sig = sig.strip()
    if not sig:
        return []
    if not (sig.startswith("(") and sig.endswith(")")):
        raise core.MachineryError("events.json: malformed signature %r" % sig)
    out = []
    for part in sig[1:-1].split(","):
        t, n = part.split()
        out.append({"t": t, "n": n})
    return out


def load_catalogue():
    models = json.load(open(os.path.join(core.SPEC, "data", "events.json")))["models"]
    cat = {}
    for name, m in sorted(models.items(), key=lambda kv: kv[1]["char"]):
        mc = m["char"]
        evs = []
        for mcv, e in m["events"].items():
            if len(mcv) != 3 or mcv[0] != mc:
                raise core.MachineryError("events.json: bad key %r in model %s" % (mcv, name))
            evs.append({"mcv": mcv, "c": idx(mcv[1]), "v": idx(mcv[2]), "j": bool(e.get("jumbo")),
                        "args": parse_sig(e.get("sig", "")), "desc": tokenise(e["desc"]),
                        "sig": mcv + ("+" if e.get("jumbo") else "") + e.get("sig", ""),
                        "text": e["desc"]})
        exc = []
        for a in m.get("accepted_unlisted", []):
            p = a["pattern"]
            if len(p) != 3 or p[0] != mc or p[1] == "?":
                raise core.MachineryError("events.json: unsupported accepted_unlisted pattern %r" % p)
            exc.append({"c": idx(p[1]), "v": 0 if p[2] == "?" else idx(p[2])})
        cat[mc] = {"mc": mc, "name": name, "version": m["version"], "events": evs, "excepted": exc}
    return cat


def tlc_models(cat):
    return [{"mc": m["mc"], "name": m["name"], "version": m["version"], "excepted": m["excepted"],
             "events": [{k: e[k] for k in ("c", "v", "j", "args", "desc", "sig", "text")} for e in m["events"]]}
            for m in cat.values()]


def event_of(cat, mc, c, v):
    for e in cat[mc]["events"]:
        if e["c"] == c and e["v"] == v:
            return e
    return None


# --------------------------------------------------------------------------
# observations

_re_model = re.compile(r"^## Model (\S+)\s*$")
_re_ident = re.compile(r"with identifier \*\*`(.)`\*\* at version `([^`]*)`")
_re_dt = re.compile(r"^<dt><a id=\"(.*)\" href=\"#(.*)\"><pre>(.*)</pre></a></dt>$")
_re_dd = re.compile(r"^<dd>(.*)</dd>$")


def run_ovnievents(bdir):
    r = emu.runtool(bdir, "ovnievents", [])
    text = r.out.decode("latin1", "replace")
    models = []
    cur = None
    pend = None
    for ln in text.splitlines():
        m = _re_model.match(ln)
        if m:
            cur = {"mc": "", "name": m.group(1), "version": "", "events": []}
            models.append(cur)
            continue
        m = _re_ident.search(ln)
        if m and cur is not None and not cur["mc"]:
            cur["mc"], cur["version"] = m.group(1), m.group(2)
            continue
        m = _re_dt.match(ln)
        if m and cur is not None:
            pend = {"id": html.unescape(m.group(1)), "sig": html.unescape(m.group(3))}
            continue
        m = _re_dd.match(ln)
        if m and cur is not None and pend is not None:
            cur["events"].append({"mcv": pend["id"], "sig": pend["sig"], "text": html.unescape(m.group(1))})
            pend = None
    return r, models, text


def panic_clock(text):
    """raw clock of the event the emulator refused (its panic report), or None"""
    m = re.search(r"EMULATOR PANIC.*?mcv=(\S*).*?rclock=(-?\d+)", text, re.S)
    if not m:
        return None
    return int(m.group(2))


# --------------------------------------------------------------------------
# encoding of model events (inputs)

def label_of(k):
    return "T%d" % k


def payload_of(e, args):
    """(payload bytes, jumbo data or None) of catalogue event e with argument values args"""
    raw = b""
    for a, val in zip(e["args"], args):
        if a["t"] == "str":
            raw += (label_of(val) if isinstance(val, int) else val).encode("latin1") + b"\0"
        else:
            raw += struct.pack(TYPE_PACK[a["t"]], val)
    if e["j"]:
        return None, raw
    return raw, None


def synth_event(cat, ev):
    """TLC event {mc, c, v, a, j} -> synth history entry"""
    e = event_of(cat, ev["mc"], ev["c"], ev["v"])
    m = ev["mc"] + chr_of(ev["c"]) + chr_of(ev["v"])
    if e is None or not ev["a"]:
        return {"th": 1, "m": m, "payload": ""}
    p, j = payload_of(e, ev["a"])
    if j is not None:
        return {"th": 1, "m": m, "jumbo": j.hex()}
    return {"th": 1, "m": m, "payload": p.hex()}


def fast_scratch():
    """scratch root for the ~10^4..10^5 tiny traces: tmpfs when there is one (an
    emulator run costs 4 ms there against 12 ms on disk), else the usual scratch"""
    import tempfile
    if os.path.isdir("/dev/shm") and os.access("/dev/shm", os.W_OK):
        try:
            return tempfile.mkdtemp(prefix="verif-c18-", dir="/dev/shm")
        except OSError:
            pass
    return core.mkscratch("c18")


class Runner:
    """one-probe traces on ovniemu -l.  Every worker process rewrites the same
    single-stream trace directory (directory creation and removal dominate
    otherwise); only stream.obs / stream.json are read by the emulator."""

    def __init__(self, bdir, cat, sysrec, root):
        self.bdir = bdir
        self.cat = cat
        self.root = root
        self.base = {"threads": sysrec["threads"], "cpus": sysrec["cpus"], "marks": sysrec["marks"]}

    def system(self, mc):
        s = dict(self.base)
        s["models"] = sorted({"O", mc})
        return s

    def workdir(self, tag="p"):
        d = os.path.join(self.root, "%s%d" % (tag, os.getpid()))
        os.makedirs(d, exist_ok=True)
        return d

    def run(self, mc, hist, probe_at, keep=False):
        """hist: synth entries; probe_at: index of the probe.  Returns observation dict."""
        d = self.workdir()
        td = os.path.join(d, "ovni")
        system = self.system(mc)
        if any(x["m"] in ("KCO", "KCI") for x in hist):
            system["models"] = sorted(set(system["models"]) | {"K"})
        clocks = synth.materialise(td, system, hist, models=emuhist.require_for(set(system["models"])),
                                   meta_extra=emuhist.meta_extra_for(system))
        r = emu.ovniemu(self.bdir, td, ("-l",), timeout=30)
        pc = panic_clock(r.text)
        if pc is None and "emu_step failed" in r.text:
            # an event was refused but the report naming it is missing: the
            # observation "which event" cannot be projected
            raise core.MachineryError("ovniemu refused an event without the panic report naming it:\n" + r.text[-1500:])
        at = clocks.index(pc) if pc in clocks else (None if pc is None else -1)
        o = {"verdict": r.verdict, "refused_at": at, "probe_at": probe_at,
             "errors": r.last_errors(3)}
        if keep:
            o["stderr"] = r.text[-6000:]
            o["files"] = {}
            for sd in obs.find_streams(td):
                rel = os.path.relpath(sd, d)
                o["files"][rel + "/stream.obs"] = open(os.path.join(sd, "stream.obs"), "rb").read()
                o["files"][rel + "/stream.json"] = open(os.path.join(sd, "stream.json")).read()
        return o


def processed(o):
    """the probe event was processed by its handler: the emulator neither died
    nor refused the probe or anything before it"""
    if o["verdict"] not in ("ok", "fail"):
        return False
    return o["refused_at"] is None or (o["refused_at"] >= 0 and o["refused_at"] > o["probe_at"])


def refused_probe(o):
    """the emulator failed cleanly, refusing exactly the probe"""
    return o["verdict"] == "fail" and o["refused_at"] == o["probe_at"]


# --------------------------------------------------------------------------
# argument vectors for decoding (inputs)

def arg_vectors(e, rng, nrand):
    """argument vectors by declared type: small, mixed with zeros, extreme, all
    zero, then nrand seeded random ones over the whole range of each type"""
    vs = [[] for _ in range(4 + nrand)]
    for i, a in enumerate(e["args"]):
        t = a["t"]
        if t == "str":
            vals = ["T1", "a label with spaces", "x%d{y} 100%% \"q\" ~", ""]
            # labels with bytes >= 0x80 (UTF-8 text, here as the latin-1 reading of its bytes)
            vals[1] = "a\u00c3\u00b1adir_\u00cf\u0080 with \u00e2\u0082\u00ac spaces"
            vals += ["".join(rng.choice(PRINTABLE) for _ in range(rng.randrange(0, 24))) for _ in range(nrand)]
        else:
            bits = 8 * struct.calcsize(TYPE_PACK[t])
            signed = t.startswith("i")
            small = i + 1
            mixed = [7, 0, 5, 9][i % 4]
            if signed:
                ext = -(1 << (bits - 1)) + i if i % 2 == 0 else -1 - i
            else:
                ext = (1 << bits) - 1 - i if i % 2 == 0 else (1 << (bits - 1)) + i
            if t == "u64":
                ext = 0xfedcba9876543210 - i
            vals = [small, mixed, ext, 0]
            lo, hi = (-(1 << (bits - 1)), (1 << (bits - 1)) - 1) if signed else (0, (1 << bits) - 1)
            for _ in range(nrand):
                # half of them near a power of two (carries, sign bit), half uniform
                if rng.random() < 0.5:
                    x = (1 << rng.randrange(0, bits)) + rng.randrange(-2, 3)
                    x = -x if signed and rng.random() < 0.5 else x
                else:
                    x = rng.randrange(lo, hi + 1)
                vals.append(min(hi, max(lo, x)))
        for k in range(len(vs)):
            vs[k].append(vals[k])
    return vs


def stored_payload(e, args):
    """payload bytes as stored in the stream (what ovnidump reads)"""
    p, j = payload_of(e, args)
    if j is not None:
        return list(struct.pack("<I", len(j)) + j)
    return list(p)


# --------------------------------------------------------------------------

def run_tlc(cfg, path, model=None, static=False, timeout=900):
    """one TLC run (one worker: the spec accumulates in TLC registers) on the
    model named `model` (all models if None); `static` = also evaluate the
    state-independent parts (listing, decoding, renderer self test)"""
    env = {"CAT_INPUT": path}
    if model:
        env["CAT_MODEL"] = model
    if static:
        env["CAT_STATIC"] = "1"
    return core.tlc("Catalogue", cfg, workers=1, env=env, tags=TAGS, timeout=timeout, heap="3g")


def assumption_failed(out, name):
    """TLC reports a false assumption by position: is it the one called `name`?"""
    m = re.search(r"Assumption line (\d+), col \d+ to line (\d+), col \d+ of module Catalogue is false", out)
    if not m:
        return False
    src = open(os.path.join(core.SPEC, "Catalogue.tla")).read().splitlines()
    decl = [i + 1 for i, ln in enumerate(src) if ln.startswith("ASSUME " + name + " ==")]
    return bool(decl) and decl[0] <= int(m.group(1)) and not any(
        ln.startswith("ASSUME") for ln in src[decl[0]:int(m.group(1))])


def neighbours(cat, mc, nidx=94):
    """unlisted codes of model mc within edit distance 1 of a listed code (of any model)"""
    listed = {(m, e["c"], e["v"]) for m in cat for e in cat[m]["events"]}
    out = set()
    rng94 = range(1, nidx + 1)
    for (m, c, v) in listed:
        if m == mc:
            for x in rng94:
                out.add((c, x))
                out.add((x, v))
            # single-bit changes of both bytes, and the images with bit 7 set
            for b in range(8):
                for (c2, v2) in ((((c + 32) ^ (1 << b)) - 32, v), (c, ((v + 32) ^ (1 << b)) - 32),
                                 (((c + 32) ^ (1 << b)) - 32, ((v + 32) ^ (1 << b)) - 32)):
                    if 1 <= c2 <= NIDX and 1 <= v2 <= NIDX:
                        out.add((c2, v2))
        else:
            out.add((c, v))           # the model character substituted
    return {k for k in out if (mc, k[0], k[1]) not in listed}


def main(pid, tier):
    ck = core.Check(pid, "model_checking", tier)
    bdir = core.build("hooks")
    cat = load_catalogue()
    rng = random.Random(core.seed())
    scratch = core.mkscratch("c18in")
    fast = fast_scratch()
    try:
        return _main(ck, bdir, cat, rng, scratch, fast, tier)
    finally:
        shutil.rmtree(scratch, ignore_errors=True)
        shutil.rmtree(fast, ignore_errors=True)


def _main(ck, bdir, cat, rng, scratch, fast, tier):
    # ---- observations and inputs handed to TLC
    er, observed, evtext = run_ovnievents(bdir)
    if er.rc != 0 or not observed:
        ck.violation("ovnievents failed (%s): the catalogue of the tree cannot be listed\n%s"
                     % (er.verdict, er.text[-1500:]), {"stderr.txt": er.text[-6000:]}, sig="ovnievents-failed")
    dcases = []
    for mc, m in cat.items():
        for e in m["events"]:
            vecs = arg_vectors(e, rng, 4 if tier == "quick" else 60) if e["args"] else [[]]
            for k, vec in enumerate(vecs):
                dcases.append({"id": len(dcases), "mc": mc, "c": e["c"], "v": e["v"], "vec": k,
                               "args": vec, "payload": stored_payload(e, vec)})
    # quick: the printable square exhaustively + chosen codes outside it; thorough: every byte pair
    nidx = 94 if tier == "quick" else NIDX
    extra = {mc: sorted(k for k in neighbours(cat, mc, nidx) if k[0] > nidx or k[1] > nidx) for mc in cat}
    inp = {"ascii": PRINTABLE, "nidx": nidx, "extra": [{"mc": mc, "pairs": [list(k) for k in extra[mc]]} for mc in sorted(cat)],
           "models": tlc_models(cat),
           "observed": [{"mc": o["mc"], "name": o["name"], "events": [{"sig": x["sig"], "text": x["text"]} for x in o["events"]]}
                        for o in observed],
           "decode": [{k: d[k] for k in ("id", "mc", "c", "v", "payload")} for d in dcases]}
    path = os.path.join(scratch, "input.json")
    json.dump(inp, open(path, "w"))
    neg_inp = dict(inp, observed=[], decode=[])
    npath = os.path.join(scratch, "input-neg.json")
    json.dump(neg_inp, open(npath, "w"))

    # ---- TLC: one run per model and the negative configurations, side by side
    negs = NEGATIVES if tier != "quick" else [NEGATIVES[0], NEGATIVES[2]]
    chars = sorted(cat)
    static_mc = min(chars, key=lambda c: len(cat[c]["events"]))       # the smallest run carries the static parts
    jobs = [("Catalogue.cfg", path, mc, mc == static_mc) for mc in chars]
    jobs += [(n[0], npath, n[3], n[1] == "assume") for n in negs]
    runs = core.pmap(lambda j: run_tlc(*j), jobs, threads=True, workers=len(jobs))
    for (cfg, kind, why, _), nr in zip(negs, runs[len(chars):]):
        ck.add_tlc(nr, "Catalogue/%s (negative: %s)" % (cfg, why))
        refuted = ((kind == "inv" and nr.violated == "ProbeConsistent")
                   or (kind == "post" and "Postcondition Post" in nr.out and "is false" in nr.out)
                   or (kind == "assume" and assumption_failed(nr.out, "RendererSelfTest")))
        if not refuted:
            raise core.MachineryError("negative configuration %s was not refuted (%s)\n%s" % (cfg, why, nr.out[-1500:]))
    lines = {}
    for mc, r in zip(chars, runs):
        ck.add_tlc(r, "Catalogue/Catalogue.cfg model %s (%s): witness contexts + 223 x 223 code space (bytes 33..255)%s"
                   % (mc, cat[mc]["name"], " + listing + decoding" if mc == static_mc else ""))
        if r.violated:
            ck.violation("Catalogue.tla (model %s): %s violated: the committed catalogue and the reference semantics disagree"
                         % (mc, r.violated), {"tlc.out": r.out[-20000:]}, sig="spec:" + r.violated)
            return ck.finish(rule="TLC run failed")
        if r.error:
            if "Postcondition Post" in r.out:
                raise core.MachineryError("Catalogue.tla (model %s): a listed event has no witness context in the bounded "
                                          "model (or the code space was not covered)\n%s" % (mc, r.out[-2500:]))
            core.tlc_expect_ok(r, "Catalogue.cfg/" + mc)
        for tg, objv in r.lines:
            lines.setdefault(tg, []).append(objv)
    if len(lines.get("SYS", [])) != len(chars) or any(x != lines["SYS"][0] for x in lines["SYS"]) \
            or len(lines.get("SUM", [])) != len(chars):
        raise core.MachineryError("Catalogue.tla: expected one SYS and one SUM line per model")
    summ = {k: sum(x[k] for x in lines["SUM"]) for k in ("listed", "witnessed", "probes", "expect_reject")}
    sysrec = lines["SYS"][0]
    ck.notes["tlc_summary"] = summ
    ck.phase("tlc")

    # ---- 1. LISTED = CATALOGUE
    nlisted = 0
    for d in lines.get("LST", []):
        mname = cat[d["mc"]]["name"]
        nlisted += len(cat[d["mc"]]["events"])
        ck.case("listing:" + d["mc"], nontrivial=True)
        if not d["present"]:
            ck.violation("model %s (%s) of the catalogue is not listed exactly once by ovnievents" % (mname, d["mc"]),
                         {"ovnievents.txt": evtext}, sig="listing:model:" + d["mc"])
            continue
        if not d["name"]:
            ck.violation("model %s is listed by ovnievents under another name" % mname,
                         {"ovnievents.txt": evtext}, sig="listing:name:" + d["mc"])
        for sg, text in d["missing"]:
            ck.violation("catalogue event not listed by ovnievents (or listed with another signature/description): "
                         "model %s: %s -- %s" % (mname, sg, text),
                         {"ovnievents.txt": evtext, "diff.json": d}, sig="listing:missing:" + sg[:3])
        for sg, text in d["extra"]:
            ck.violation("ovnievents lists an event that is not in the catalogue (or differs in signature/description): "
                         "model %s: %s -- %s" % (mname, sg, text),
                         {"ovnievents.txt": evtext, "diff.json": d}, sig="listing:extra:" + sg[:3])
    for mc in lines.get("LSX", [{}])[0].get("unknown", []):
        ck.violation("ovnievents lists a model %r that is not in the catalogue" % mc, {"ovnievents.txt": evtext},
                     sig="listing:model:" + mc)
    ck.notes["listing"] = {"catalogue_events": nlisted, "ovnievents_events": sum(len(o["events"]) for o in observed)}
    ck.phase("listing")

    # ---- 2. LISTED <=> HANDLED
    run = Runner(bdir, cat, sysrec, fast)
    wit = {}
    for w in lines.get("WIT", []):
        wit[(w["mc"], w["ev"]["c"], w["ev"]["v"])] = w
    acc = {(a["mc"], a["c"], a["v"]) for a in lines.get("ACC", [])}
    # unlisted codes of the base model that the specification accepts after the thread has ended (ProbeEnded)
    acce = {(a["mc"], a["c"], a["v"]) for a in lines.get("ACCE", [])}
    listed = {(mc, e["c"], e["v"]) for mc in cat for e in cat[mc]["events"]}
    canon = sysrec["canon"]
    space = [(mc, c, v) for mc in cat for c in range(1, nidx + 1) for v in range(1, nidx + 1)]
    space += [(mc, c, v) for mc in cat for (c, v) in extra[mc]]
    if summ["probes"] != len(space) or len(space) - len(listed) - len(acc) != summ["expect_reject"]:
        raise core.MachineryError("Catalogue.tla: verdict counts do not cover the code space: %s" % summ)
    ohe = [e for e in cat["O"]["events"] if e["mcv"] == "OHe"]
    tail = [{"th": 1, "m": "OHe", "payload": ""}] if ohe else []

    probes = []     # (kind, key, mc, history(synth), probe index, expect_accept)
    for key in sorted(listed):
        w = wit.get(key)
        if w is None:
            raise core.MachineryError("no witness for listed event %s" % (key,))
        hist = [synth_event(cat, x) for x in w["pre"]] + [synth_event(cat, w["ev"])]
        probes.append(("listed", key, key[0], hist, len(hist) - 1, True, w))
    # every listed event once more in its witness context while the kernel model has switched the thread out
    # (KCO before it): processed, unless the model refuses events of a thread that is out of the CPU
    # (ModelInfo[mc].noooc of EventData.tla = "refuses_out_of_cpu" of the committed table)
    noooc = {m["char"]: bool(m.get("refuses_out_of_cpu", False))
             for m in json.load(open(os.path.join(core.SPEC, "data", "events.json")))["models"].values()}
    if "K" in cat:
        for key in sorted(listed):
            if key[0] == "K":
                continue
            w = wit[key]
            hist = [synth_event(cat, x) for x in w["pre"]] + [{"th": 1, "m": "KCO", "payload": ""}, synth_event(cat, w["ev"])]
            probes.append(("listed+switched-out", key, key[0], hist, len(hist) - 1, not noooc[key[0]], w))
    # listed events that carry a string once more right after themselves with ANOTHER integer argument and
    # the SAME string (two task types with one label): the string is not a key
    for key in sorted(listed):
        e = event_of(cat, key[0], key[1], key[2])
        w = wit[key]
        if not e or not any(a["t"] == "str" for a in e["args"]) or not w["ev"].get("a"):
            continue
        a2 = [(v + 1 if (isinstance(v, int) and e["args"][i]["t"] != "str") else v) for i, v in enumerate(w["ev"]["a"])]
        if a2 == list(w["ev"]["a"]):
            continue
        hist = [synth_event(cat, x) for x in w["pre"]] + [synth_event(cat, w["ev"]), synth_event(cat, dict(w["ev"], a=a2))]
        probes.append(("listed", key, key[0], hist, len(hist) - 1, True, w))
    unl = [k for k in space if k not in listed]
    if tier == "quick":
        near = set()
        for mc in cat:
            near |= {(mc, c, v) for (c, v) in neighbours(cat, mc, nidx)}
        near |= acc
        rest = sorted(set(unl) - near)
        sel = sorted(near) + rng.sample(rest, min(5000, len(rest)))
    else:
        sel = unl
    pre0 = [synth_event(cat, canon)]
    for key in sel:
        m = key[0] + chr_of(key[1]) + chr_of(key[2])
        probes.append(("unlisted", key, key[0], pre0 + [{"th": 1, "m": m, "payload": ""}] + tail, 1, key in acc, None))
    # unlisted codes once more after the thread has ended (OHe): the base model still
    # processes listed events there (the flush of a thread that has ended, OF[ OF]), so
    # "every unlisted code is rejected" is a separate obligation in that context.  All
    # unlisted codes of the base model within the selection, and the neighbours of the
    # other models (for them an event of a dead thread is refused anyway).
    ohe_ev = {"th": 1, "m": "OHe", "payload": ""}
    ndead = 0
    for key in sel:
        if key[0] != "O" and tier == "quick" and ndead % 7:
            ndead += 1
            continue
        ndead += 1
        if key[0] != "O" and key in acc:
            # a legacy code of another model that the catalogue excepts: whether it is still accepted from
            # a thread that has ended is not stated anywhere (ovniemu refuses it: thread not active) - no probe
            continue
        m = key[0] + chr_of(key[1]) + chr_of(key[2])
        probes.append(("unlisted+ended", key, key[0], pre0 + [ohe_ev, {"th": 1, "m": m, "payload": ""}], 2,
                       (key in acce) if key[0] == "O" else (key in acc), None))
    # the listed flush events are processed in that context (non-vacuity of the family)
    for v in "[]":
        k = ("O", idx("F"), idx(v))
        if k in listed:
            hist = pre0 + [ohe_ev, {"th": 1, "m": "OF[", "payload": ""}] + ([{"th": 1, "m": "OF]", "payload": ""}] if v == "]" else [])
            probes.append(("listed+ended", k, "O", hist, len(hist) - 1, True, None))
    # unlisted codes with the payload (and in the witness context) of each listed
    # event of the same category that carries arguments
    nshape = 0
    for mc in cat:
        sib = {}
        for e in cat[mc]["events"]:
            if e["args"]:
                sib.setdefault(e["c"], []).append(e)
        for c, es in sorted(sib.items()):
            for v in range(1, nidx + 1):
                key = (mc, c, v)
                if key in listed:
                    continue
                for e in es:
                    w = wit[(mc, e["c"], e["v"])]
                    pe = dict(synth_event(cat, w["ev"]), m=mc + chr_of(c) + chr_of(v))
                    hist = [synth_event(cat, x) for x in w["pre"]] + [pe] + tail
                    probes.append(("unlisted+payload:" + e["mcv"], key, mc, hist, len(w["pre"]), key in acc, None))
                    nshape += 1

    res = core.pmap(lambda p: run.run(p[2], p[3], p[4]), probes)
    counts = {}
    for p, o in zip(probes, res):
        kind, key, mc, hist, at, expect, w = p
        code = key[0] + chr_of(key[1]) + chr_of(key[2])
        k0 = kind.split(":")[0]
        counts[k0] = counts.get(k0, 0) + 1
        ck.case("%s:%s" % (kind, code), nontrivial=True)
        ck.cov["traces_validated_against_impl"] += 1
        good = processed(o) if expect else refused_probe(o)
        if good:
            continue
        ko = run.run(mc, hist, at, keep=True)
        bundle = {"history.json": hist, "observation.json": {k: ko[k] for k in ("verdict", "refused_at", "probe_at", "errors")},
                  "emu_stderr.txt": ko.get("stderr", ""), "witness.json": w or {}}
        for fn, content in ko.get("files", {}).items():
            bundle["trace/" + fn] = content
        names = [x["m"] for x in hist]
        if o["verdict"] not in ("ok", "fail"):
            ck.violation("ovniemu %s on the one-probe trace %s (probe %s of model %s)" % (o["verdict"], names, code, cat[mc]["name"]),
                         bundle, sig="crash:" + code)
        elif kind == "listed+switched-out":
            ck.violation("listed event %s (model %s) in its witness context with the thread switched out by the kernel "
                         "(KCO before it) %s: expected %s, ovniemu verdict %s, refused event #%s %s"
                         % (code, cat[mc]["name"], names, "processed" if expect else "the event refused (the model refuses "
                            "events of a thread that is out of the CPU)", o["verdict"], o["refused_at"], o["errors"]),
                         bundle, sig="listed-switched-out:" + code[:2])
        elif expect and kind in ("listed", "listed+ended"):
            ck.violation("listed event %s (model %s) is not processed in its witness context %s: ovniemu refused event #%s %s"
                         % (code, cat[mc]["name"], names, o["refused_at"], o["errors"]), bundle, sig="listed-refused:" + code)
        elif expect:
            ck.violation("code %s (model %s) is excepted by the catalogue (ignored value byte / legacy code) but ovniemu "
                         "refused it: %s %s" % (code, cat[mc]["name"], names, o["errors"]), bundle, sig="excepted-refused:" + code)
        else:
            ck.violation("unlisted code %s is handled by model %s: trace %s (%s) -> ovniemu verdict %s, refused event #%s "
                         "(expected: the probe #%d refused)" % (code, cat[mc]["name"], names, kind, o["verdict"], o["refused_at"], at),
                         bundle, sig="unlisted-handled:" + code)
    nended = sum(x.get("ended_probes", 0) for x in lines.get("SUME", []))
    if nended == 0 or not acce:
        raise core.MachineryError("Catalogue.tla: ProbeEnded was never taken / accepted nothing (ended probes %d, accepted %d)" % (nended, len(acce)))
    ck.notes["ended_context"] = {"tlc_ended_probes": nended, "spec_accepts_unlisted_after_OHe": len(acce)}
    ck.notes["probes"] = dict(counts, code_space=len(space), unlisted_selected=len(sel), accepted_unlisted=len(acc))
    for p in probes[:2] + probes[len(listed):len(listed) + 2]:
        ck.sample({"kind": p[0], "code": p[1][0] + chr_of(p[1][1]) + chr_of(p[1][2]), "trace": [x["m"] for x in p[3]], "expect_processed": p[5]})
    ck.phase("probes")

    # ---- 3. DECODING
    expect = {d["id"]: d for d in lines.get("DEC", [])}
    if len(expect) != len(dcases):
        raise core.MachineryError("Catalogue.tla: %d DEC lines for %d cases" % (len(expect), len(dcases)))
    groups = {}
    for d in dcases:
        groups.setdefault((d["mc"], d["vec"]), []).append(d)

    def dump(item):
        (mc, k), ds = item
        sd = run.workdir("d")
        td = os.path.join(sd, "ovni")
        hist = []
        for d in ds:
            e = event_of(cat, d["mc"], d["c"], d["v"])
            p, j = payload_of(e, d["args"])
            h = {"th": 1, "m": e["mcv"]}
            if j is not None:
                h["jumbo"] = j.hex()
            else:
                h["payload"] = p.hex()
            hist.append(h)
        system = run.system(mc)
        if mc == "*":
            system["models"] = sorted(cat)
        clocks = synth.materialise(td, system, hist, models=emuhist.require_for(set(system["models"])))
        rr = emu.runtool(bdir, "ovnidump", [td], timeout=60)
        out = rr.out.decode("latin1", "replace")
        got = {}
        for ln in out.split("\n"):
            m = re.match(r"^\s*(-?\d+)  (...)  (\S+)  (.*)$", ln)
            if m:
                got.setdefault(int(m.group(1)), []).append((m.group(2), m.group(4)))
        return {"verdict": rr.verdict, "got": [got.get(c, []) for c in clocks], "stdout": out[-20000:], "stderr": rr.text[-3000:]}

    items = sorted(groups.items())
    # the same cases once more in traces that mix the models: the events of ALL models ordered by (category,
    # value, model) and the reverse, so that events whose codes differ in the model byte only are neighbours
    nvec = len({d["vec"] for d in dcases})
    for k in sorted({d["vec"] for d in dcases})[:2 if tier == "quick" else nvec]:
        ds = sorted((d for d in dcases if d["vec"] == k), key=lambda d: (d["c"], d["v"], d["mc"]))
        items.append((("*", k), ds))
        items.append((("*", k), ds[::-1]))
    dres = core.pmap(dump, items)
    ndec = 0
    for ((mc, k), ds), o in zip(items, dres):
        if o["verdict"] != "ok" and not (o["verdict"] == "exit0-without-ok"):
            ck.violation("ovnidump %s on a trace holding the listed events of model %s (argument vector %d)"
                         % (o["verdict"], cat[mc]["name"] if mc in cat else "(all models, mixed)", k),
                         {"stdout.txt": o["stdout"], "stderr.txt": o["stderr"], "cases.json": ds}, sig="ovnidump:" + o["verdict"])
            continue
        for d, g in zip(ds, o["got"]):
            e = event_of(cat, d["mc"], d["c"], d["v"])
            x = expect[d["id"]]
            ck.case("decode:%s:%d%s" % (e["mcv"], d["vec"], ":mixed" if mc == "*" else ""), nontrivial=bool(e["args"]))
            if not x["ok"]:
                ck.notes.setdefault("decode_unspecified", []).append(e["mcv"])
                continue
            ndec += 1
            ck.cov["traces_validated_against_impl"] += 1
            if len(g) == 1 and g[0][0] == e["mcv"] and g[0][1] == x["text"]:
                continue
            ck.violation("ovnidump decodes %s%s with arguments %s as %r; the catalogue description %r gives %r"
                         % (e["mcv"], "+" if e["j"] else "", d["args"], g[0][1] if g else None, e["text"], x["text"]),
                         {"case.json": d, "expected.json": x, "stdout.txt": o["stdout"], "stderr.txt": o["stderr"]},
                         sig="decode:" + e["mcv"])
    # ---- 3b. codes that are neither listed nor excepted have NO description: ovnidump must not print one
    # ("the descriptions ovnidump prints" are part of the listing).  The unlisted codes selected above, in
    # printable ASCII, 150 per trace, events without payload after the canonical first event.
    und = [k for k in sel if k not in acc and k not in listed and 1 < k[1] < 95 and 1 < k[2] < 95]
    if tier == "quick":
        rng.shuffle(und)
        und = und[:6000]
    und.sort()
    batches = [und[i:i + 150] for i in range(0, len(und), 150)]

    def dump_unlisted(batch):
        sd = run.workdir("u")
        td = os.path.join(sd, "ovni")
        hist = [synth_event(cat, canon)] + [{"th": 1, "m": k[0] + chr_of(k[1]) + chr_of(k[2]), "payload": ""} for k in batch]
        system = run.system("O")
        system["models"] = sorted(cat)
        clocks = synth.materialise(td, system, hist, models=emuhist.require_for(set(system["models"])))
        rr = emu.runtool(bdir, "ovnidump", [td], timeout=60)
        out = rr.out.decode("latin1", "replace")
        got = {}
        for ln in out.split("\n"):
            m = re.match(r"^\s*(-?\d+)  (...)  (\S+)  (.*)$", ln)
            if m:
                got.setdefault(int(m.group(1)), []).append((m.group(2), m.group(4)))
        return {"verdict": rr.verdict, "got": [got.get(c, []) for c in clocks[1:]], "stdout": out[-20000:], "stderr": rr.text[-3000:]}

    ures = core.pmap(dump_unlisted, batches)
    nund = 0
    for batch, o in zip(batches, ures):
        if o["verdict"] != "ok" and not (o["verdict"] == "exit0-without-ok"):
            ck.violation("ovnidump %s on a trace holding unlisted codes" % o["verdict"],
                         {"stdout.txt": o["stdout"], "stderr.txt": o["stderr"]}, sig="ovnidump-unlisted:" + o["verdict"])
            continue
        for k, g in zip(batch, o["got"]):
            code = k[0] + chr_of(k[1]) + chr_of(k[2])
            nund += 1
            ck.case("dump-unlisted:" + code, nontrivial=True)
            # (whatever wording says "unknown" is no description)
            if len(g) == 1 and g[0][0] == code and (g[0][1].strip() == "" or "unknown" in g[0][1].lower()):
                continue
            ck.violation("ovnidump prints a description for the unlisted code %s (model %s): %r; only listed events "
                         "(and the excepted ignored-value categories) have one"
                         % (code, cat[k[0]]["name"], g[0][1] if g else None),
                         {"stdout.txt": o["stdout"], "stderr.txt": o["stderr"]}, sig="dump-unlisted:" + code[:2])
    ck.notes["unlisted_codes_dumped"] = nund
    ck.notes["decodings"] = {"cases": len(dcases), "compared": ndec, "with_arguments": sum(1 for d in dcases if d["args"])}
    ck.phase("decoding")

    ck.assumptions += [
        "the catalogue is the committed table spec/data/events.json (transcribed from the documentation and the model "
        "sources); a difference between it and the tree under test is reported, never absorbed",
        "a probe counts as processed when ovniemu neither dies nor reports (EMULATOR PANIC ... rclock) the probe or an "
        "earlier event as the one it refused; the verdict at the end of the trace (open regions, threads alive) is the "
        "business of C04/C08",
        "unlisted codes are probed without payload from the canonical context and, in categories whose listed events "
        "carry arguments, also with those payloads in the witness context of each such event",
        "which models refuse events of a thread that the kernel model has switched out is table data "
        "(refuses_out_of_cpu in spec/data/events.json = ModelInfo.noooc): ovni and nosv do, the others do not",
        "witness contexts are shortest within the bounded instance (one thread, two CPUs, two mark types, one task, "
        "at most %s open region, histories up to 8 events)" % 1,
    ]
    return ck.finish(rule="one ovniemu run per probe: every listed event in its TLC witness context, unlisted codes "
                          "(quick: edit distance 1 of a listed code + excepted + 5000 sampled; thorough: all of 8 x 223 x 223) "
                          "plus payload-shaped variants; one ovnidump comparison per (listed event, argument vector: 4 fixed + 4 "
                          "(thorough 60) seeded random); "
                          "distinct by (kind, code); all are non-trivial except decodings of events without arguments")
