SPECIFICATION MCSpec
CONSTANTS
  System <- SysC06
  Alphabet <- AlphaC06
  MaxLen = 10
  Lint = TRUE
VIEW MCView
INVARIANT Inv
ACTION_CONSTRAINT Export
CHECK_DEADLOCK FALSE
