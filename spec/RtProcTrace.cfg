SPECIFICATION TSpec
CONSTANTS
  Threads = {1, 2, 3}
  Programs = {}
  AtomicCas = TRUE
INVARIANTS InitOnce FiniOnce RecordStableWhileRead NoOpBeforeReady Isolation
POSTCONDITION Report
CHECK_DEADLOCK FALSE
