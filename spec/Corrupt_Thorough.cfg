SPECIFICATION CSpec
CONSTANTS
  Variant = "code"
  SeedIds = {1, 2, 3, 4, 5}
  Deep = TRUE
INVARIANTS Props ExportInv
CHECK_DEADLOCK FALSE
