SPECIFICATION Spec
CONSTANTS
  Tiny = TRUE
  WithOrders = FALSE
  SampleMod = 3
INVARIANTS MergeMatchesUnion ValidAreAccepted RowsIndependent ExportInv
CHECK_DEADLOCK FALSE
