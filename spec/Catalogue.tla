------------------------------ MODULE Catalogue ------------------------------
(* C18 - event catalogue consistency: the events a model DECLARES (what
   ovnievents lists and ovnidump decodes), the events its handler ACCEPTS and
   the way a payload is DECODED into the description coincide.

   The catalogue is committed data (spec/data/events.json).  The harness only
   re-encodes it (it never looks at /repo for it) into the JSON file named by
   the environment variable CAT_INPUT, because TLC cannot index strings:

     ascii    : the 95 one-character strings of codes 32..126.  A category or
                value character is passed as its index 1..94 (= code - 32)
     models   : [mc, name, version,
                 events   : [c, v, j (jumbo), args : [t (type), n (name)],
                             desc : tokens [k = "lit"|"arg", s, f (format)],
                             sig, text (as printed by ovnievents)],
                 excepted : [c, v] codes accepted although not listed
                            (v = 0: any value character)]
     observed : what the built ovnievents printed: [mc, name, events : [sig, text]]
     decode   : [id, mc, c, v, payload : bytes of the event payload as stored
                 in the stream (for a jumbo event: 4 bytes size, then the data)]

   What TLC does with it (one run, configuration Catalogue.cfg):

   1. LISTED = CATALOGUE   the listing observed from the tool is compared with
      the catalogue (set difference both ways, lines "LST").
   2. LISTED <=> HANDLED
      a. witness contexts: for each of the eight models a bounded instance of
         the reference semantics (EmuFull!StepAll) whose alphabet is the
         model's catalogue with representative arguments is explored breadth
         first; the first accepted occurrence of an event is printed with the
         history leading to it (lines "WIT": a shortest context in which the
         event is legal).  ListedAreProcessed (post-condition): every listed
         event has one.
      b. the code space: from the canonical context (thread started by OHx and
         running) every one of the 94 x 94 codes of every model is probed
         without payload; ProbeConsistent (invariant): the reference semantics
         rejects exactly the codes that are neither listed nor excepted.  The
         accepted unlisted codes are printed (lines "ACC"); every other
         unlisted code of the space is expected to be rejected (line "SUM"
         carries the counts).
   3. DECODING   Decode(event, payload bytes): the description template with
      each placeholder replaced by its argument taken at the offset given by
      the signature and rendered by type / format, computed on byte sequences
      with arbitrary precision (TLC integers are 32 bit).  Lines "DEC".     *)
EXTENDS EmuFull, Json, IOUtils

CONSTANTS Variant,    \* "ok", or a deliberately wrong variant (negative configurations)
          MaxLen,     \* longest history explored
          MaxOpen     \* bound on the number of simultaneously open regions

In == JsonDeserialize(IOEnv.CAT_INPUT)

Range(s) == {s[i] : i \in 1..Len(s)}
Ascii == In.ascii
Chr(i) == Ascii[i + 1]                       \* i in 1..94
\* the square In.nidx x In.nidx of codes (94: printable ASCII; 223: every byte 33..255) is probed
\* exhaustively, plus per model the pairs In.extra (codes outside the square chosen by the
\* harness: single-bit changes and bit-7 images of the listed codes)
Idx == 1..In.nidx
IdxOf(s) == CHOOSE i \in Idx : Chr(i) = s
Models == Range(In.models)
\* the models explored by this run (all, or the one named by the environment variable CAT_MODEL)
\* the run that also evaluates the state-independent parts (listing, decoding, self test)
Static == "CAT_STATIC" \in DOMAIN IOEnv
RunModels == IF "CAT_MODEL" \in DOMAIN IOEnv THEN {m \in Models : m.mc = IOEnv.CAT_MODEL} ELSE Models
ModelOf(mc) == CHOOSE m \in Models : m.mc = mc

-----------------------------------------------------------------------------
(* The catalogue and the rule for codes outside it *)
TableIgn(m, e) == LET s == m.mc \o Chr(e.c) \o Chr(e.v) IN s \in TableEvents /\ EvInfo[s].act = "ign"
ListedEvents(m) == IF Variant = "dropign" THEN {e \in Range(m.events) : ~TableIgn(m, e)}
                   ELSE Range(m.events)
ListedKeys(m) == {<<e.c, e.v>> : e \in ListedEvents(m)}
Listed(m, c, v) == <<c, v>> \in ListedKeys(m)
\* the value byte is ignored (v = 0) or a legacy code is accepted with a warning
IsExcepted(m, c, v) == \E x \in Range(m.excepted) : x.c = c /\ (x.v = 0 \/ x.v = v)
Excepted(m, c, v) == Variant # "noexc" /\ IsExcepted(m, c, v)
ExpectReject(m, c, v) == ~Listed(m, c, v) /\ ~Excepted(m, c, v)
AllListed == UNION {{<<m.mc, e.c, e.v>> : e \in Range(m.events)} : m \in RunModels}

TypeSize(t) == CASE t \in {"u8", "i8"} -> 1 [] t \in {"u16", "i16"} -> 2
                 [] t \in {"u32", "i32"} -> 4 [] t \in {"u64", "i64"} -> 8 [] t = "str" -> 0
KnownTypes == {"u8", "i8", "u16", "i16", "u32", "i32", "u64", "i64", "str"}
IsSigned(t) == t \in {"i8", "i16", "i32", "i64"}
ArgNames(e) == {e.args[i].n : i \in 1..Len(e.args)}

\* the committed table is itself a well-formed catalogue (what model_evspec_init checks)
ASSUME CatalogueWellFormed ==
   /\ {m.mc : m \in Models} = ModelChars
   /\ \A m \in Models :
        /\ Cardinality(ListedKeys(m)) = Cardinality(ListedEvents(m))            \* no duplicated MCV
        /\ \A e \in Range(m.events) :
             /\ e.c \in Idx /\ e.v \in Idx
             /\ \A i \in 1..Len(e.args) : e.args[i].t \in KnownTypes
             /\ Cardinality(ArgNames(e)) = Len(e.args)
             /\ (e.j => Len(e.args) > 0)
             /\ \A i \in 1..Len(e.args) : e.args[i].t = "str" => (e.j /\ i = Len(e.args))
             /\ \A k \in 1..Len(e.desc) : e.desc[k].k = "arg" => e.desc[k].s \in ArgNames(e)

-----------------------------------------------------------------------------
(* 1. LISTED = CATALOGUE *)
Listing(evs) == {<<x.sig, x.text>> : x \in Range(evs)}
ObsOf(mc) == {o \in Range(In.observed) : o.mc = mc}
ListingDiff(m) ==
   LET O == ObsOf(m.mc) IN
   IF O = {} THEN [mc |-> m.mc, present |-> FALSE, name |-> FALSE, missing |-> Listing(m.events), extra |-> {}]
   ELSE LET o == CHOOSE x \in O : TRUE IN
        [mc |-> m.mc, present |-> Cardinality(O) = 1, name |-> o.name = m.name,
         missing |-> Listing(m.events) \ Listing(o.events),
         extra |-> Listing(o.events) \ Listing(m.events)]
ASSUME Static => \A m \in Models : PrintT(<<"LST", ToJson(ListingDiff(m))>>)
ASSUME Static => PrintT(<<"LSX", ToJson([unknown |-> {o.mc : o \in Range(In.observed)} \ {m.mc : m \in Models}])>>)

-----------------------------------------------------------------------------
(* 3. DECODING (ev_spec_print).  Numbers are little-endian byte sequences. *)
Digits == <<"0", "1", "2", "3", "4", "5", "6", "7", "8", "9", "a", "b", "c", "d", "e", "f">>
Rev(s) == [i \in 1..Len(s) |-> s[Len(s) + 1 - i]]
IsZero(bs) == \A i \in 1..Len(bs) : bs[i] = 0
RECURSIVE Cat(_)
Cat(ss) == IF ss = <<>> THEN "" ELSE Head(ss) \o Cat(Tail(ss))

\* long division of a big-endian base-256 number by 10
RECURSIVE DivStep(_, _, _)
DivStep(bs, carry, q) ==
   IF bs = <<>> THEN [q |-> q, r |-> carry]
   ELSE LET x == carry * 256 + Head(bs) IN DivStep(Tail(bs), x % 10, Append(q, x \div 10))
RECURSIVE DecDigits(_)          \* decimal digits, most significant first
DecDigits(be) == LET d == DivStep(be, 0, <<>>) IN
                 IF IsZero(d.q) THEN <<d.r>> ELSE Append(DecDigits(d.q), d.r)
RECURSIVE AddOne(_)
AddOne(le) == IF le = <<>> THEN <<>>
              ELSE IF Head(le) = 255 THEN <<0>> \o AddOne(Tail(le))
              ELSE <<Head(le) + 1>> \o Tail(le)
Negate(le) == IF Variant = "decbug" THEN [i \in 1..Len(le) |-> 255 - le[i]]
              ELSE AddOne([i \in 1..Len(le) |-> 255 - le[i]])          \* two's complement
DecStr(le, signed) ==
   LET neg == signed /\ le[Len(le)] >= 128
       mag == IF neg THEN Negate(le) ELSE le
       ds == DecDigits(Rev(mag))
   IN  (IF neg THEN "-" ELSE "") \o Cat([i \in 1..Len(ds) |-> Digits[ds[i] + 1]])
RECURSIVE Strip(_)
Strip(ds) == IF Len(ds) > 1 /\ Head(ds) = 0 THEN Strip(Tail(ds)) ELSE ds
HexStr(le) == LET be == Rev(le)
                  nib == [i \in 1..(2 * Len(be)) |-> IF i % 2 = 1 THEN be[(i + 1) \div 2] \div 16
                                                      ELSE be[i \div 2] % 16]
                  ds == Strip(nib)
              IN  Cat([i \in 1..Len(ds) |-> Digits[ds[i] + 1]])
\* printf's alternate form: no prefix for zero
HexAlt(le) == IF IsZero(le) THEN "0" ELSE "0x" \o HexStr(le)

\* self test of the renderer against TLC's own decimal conversion
BytesOf(k, nb) == [i \in 1..nb |->   \* nb <= 4 (32-bit integers)
                     (k \div (256 ^ (i - 1))) % 256]
ASSUME RendererSelfTest == Static =>
   /\ \A k \in (0..2600) \cup {65535, 65536, 99999, 100000, 16777215, 16777216, 2147483647} :
         DecStr(BytesOf(k, 4), FALSE) = ToString(k) /\ DecStr(BytesOf(k, 4) \o <<0, 0, 0, 0>>, TRUE) = ToString(k)
   /\ \A k \in (-1300..-1) \cup {-32768, -32767, -10000} : DecStr(BytesOf(65536 + k, 2), TRUE) = ToString(k)
   /\ DecStr(<<255, 255, 255, 255>>, FALSE) = "4294967295" /\ DecStr(<<255, 255, 255, 255>>, TRUE) = "-1"
   /\ DecStr(<<0, 0, 0, 128>>, TRUE) = "-2147483648"
   /\ DecStr(<<0, 0, 0, 0, 0, 0, 0, 128>>, TRUE) = "-9223372036854775808"
   /\ DecStr(<<255, 255, 255, 255, 255, 255, 255, 255>>, FALSE) = "18446744073709551615"
   /\ HexAlt(<<0, 0, 0, 0, 0, 0, 0, 0>>) = "0" /\ HexAlt(<<7, 0, 0, 0, 0, 0, 0, 0>>) = "0x7"
   /\ HexAlt(<<16, 171, 0, 0, 0, 0, 0, 240>>) = "0xf00000000000ab10"

\* offset of argument i in the payload: after the 4-byte size for jumbo events
RECURSIVE SizeSum(_, _)
SizeSum(args, upto) == IF upto = 0 THEN 0 ELSE SizeSum(args, upto - 1) + TypeSize(args[upto].t)
ArgOffset(e, i) == (IF e.j THEN 4 ELSE 0) + SizeSum(e.args, i - 1)
ArgIndex(e, name) == CHOOSE i \in 1..Len(e.args) : e.args[i].n = name
Slice(p, off, nb) == [i \in 1..nb |-> p[off + i]]
RECURSIVE CStr(_, _)            \* the NUL terminated string starting after offset off
CStr(p, off) == IF off >= Len(p) \/ p[off + 1] = 0 THEN ""
                ELSE Ascii[p[off + 1] - 31] \o CStr(p, off + 1)

\* a placeholder is rendered [ok, s]; ok = FALSE when the catalogue uses a
\* format the property does not define (none does today) or the payload is short
Render(e, tok, p) ==
   LET i == ArgIndex(e, tok.s)
       t == e.args[i].t
       off == ArgOffset(e, i)
       nb == TypeSize(t)
   IN
   IF t = "str" THEN
        \* printable ASCII and bytes >= 128 (UTF-8 labels) are copied as they are; what is done with control
        \* characters is not defined
        IF tok.f = "" /\ \A k \in (off + 1)..Len(p) : p[k] = 0 \/ (p[k] >= 32 /\ p[k] <= 126) \/ (p[k] >= 128 /\ p[k] <= 255)
        THEN [ok |-> TRUE, s |-> CStr(p, off)] ELSE [ok |-> FALSE, s |-> ""]
   ELSE IF off + nb > Len(p) THEN [ok |-> FALSE, s |-> ""]
   ELSE IF tok.f = "" THEN [ok |-> TRUE, s |-> DecStr(Slice(p, off, nb), IsSigned(t))]
   ELSE IF tok.f = "#llx" /\ nb = 8 THEN [ok |-> TRUE, s |-> HexAlt(Slice(p, off, nb))]
   ELSE [ok |-> FALSE, s |-> ""]

Decode(e, p) ==
   LET parts == [k \in 1..Len(e.desc) |->
                   IF e.desc[k].k = "lit" THEN [ok |-> TRUE, s |-> e.desc[k].s]
                   ELSE Render(e, e.desc[k], p)]
   IN  [ok |-> \A k \in 1..Len(parts) : parts[k].ok,
        text |-> Cat([k \in 1..Len(parts) |-> parts[k].s])]

EventOf(mc, c, v) == CHOOSE e \in Range(ModelOf(mc).events) : e.c = c /\ e.v = v
ASSUME Static => \A d \in Range(In.decode) :
   LET r == Decode(EventOf(d.mc, d.c, d.v), d.payload) IN
   PrintT(<<"DEC", ToJson([id |-> d.id, ok |-> r.ok, text |-> r.text])>>)

-----------------------------------------------------------------------------
(* 2. LISTED <=> HANDLED *)
SysFor(mc) ==
   [threads |-> <<[tid |-> 101, pid |-> 1001, app |-> 1, loom |-> 1, rank |-> -1]>>,
    cpus |-> <<[loom |-> 1, idx |-> 0, phy |-> 10, virt |-> FALSE],
               [loom |-> 1, idx |-> 1, phy |-> 11, virt |-> FALSE],
               [loom |-> 1, idx |-> -1, phy |-> -1, virt |-> TRUE]>>,
    marks |-> <<[type |-> 1, stack |-> TRUE], [type |-> 2, stack |-> FALSE]>>,
    models |-> {"O", mc}]

\* representative values of an argument, by its declared name
ArgDom(name) == CASE name = "cpu" -> {0, 1}
                  [] name = "tid" -> {SysFor("O").threads[1].tid}
                  [] name = "bodyid" -> {0, 1}
                  [] name = "type" -> {1, 2}
                  [] name = "tag" -> {0}
                  [] OTHER -> {1}                   \* task id, type id, label T1, mark value, ...
RECURSIVE Vecs(_)
Vecs(args) == IF args = <<>> THEN {<<>>}
              ELSE {<<x>> \o r : x \in ArgDom(Head(args).n), r \in Vecs(Tail(args))}

MkEv(mc, c, v, a, j) == [th |-> 1, m |-> mc \o Chr(c) \o Chr(v), mc |-> mc, a |-> a, j |-> j, c |-> c, v |-> v]
EventsOf(m) == {MkEv(m.mc, e.c, e.v, a, e.j) : <<e, a>> \in UNION {{<<e, a>> : a \in Vecs(e.args)} : e \in Range(m.events)}}
StartEvents == {x \in EventsOf(ModelOf("O")) : x.m = "OHx"}
Alphabet(m) == EventsOf(m) \cup StartEvents
CanonStart == MkEv("O", IdxOf("H"), IdxOf("x"), <<0, SysFor("O").threads[1].tid, 0>>, FALSE)

Slim(e) == [mc |-> e.mc, c |-> e.c, v |-> e.v, a |-> e.a, j |-> e.j]
ASSUME PrintT(<<"SYS", ToJson([threads |-> SysFor("O").threads, cpus |-> SysFor("O").cpus,
                                marks |-> SysFor("O").marks, canon |-> Slim(CanonStart)])>>)

\* the reference semantics, completed with the categories whose value byte is ignored
Wild(e) == \E x \in Range(ModelOf(e.mc).excepted) : x.c = e.c /\ x.v = 0
CatStep(e) ==
   IF Wild(e) THEN
        IF failed \/ unspec THEN UNCHANGED allVars
        ELSE IF ~Enabled(e.mc) \/ ~StateOk(e.mc, e.th) THEN FailAll
        ELSE UNCHANGED allVars
   ELSE StepAll(e)

VARIABLES n, hist, last, mdl, phase, pv
cvars == <<allVars, n, hist, last, mdl, phase, pv>>
CView == <<allVars, mdl, phase, pv>>
NoEv == [th |-> 0, m |-> "", mc |-> "", a |-> <<>>, j |-> FALSE, c |-> 0, v |-> 0]
NoPv == [c |-> 0, v |-> 0, acc |-> FALSE]

OpenCount ==
   Cardinality(UNION {{<<k, i>> : i \in 1..Len(ch[1][k])} : k \in {x \in ChanKeys : ChanInfo[x].stack}})
   + Cardinality(UNION {{<<ty, i>> : i \in 1..Len(mk[1][ty])} : ty \in DOMAIN mk[1]})

CInit == \E m \in RunModels :
            /\ mdl = m.mc /\ InitAll(SysFor(m.mc), TRUE)
            /\ n = 0 /\ hist = <<>> /\ last = NoEv /\ phase = "walk" /\ pv = NoPv

\* accepted histories over the model's catalogue
Walk == /\ phase = "walk" /\ ~failed /\ ~unspec /\ n < MaxLen
        /\ \E e \in Alphabet(ModelOf(mdl)) : CatStep(e) /\ last' = e
        /\ ~failed' /\ ~unspec'
        /\ OpenCount' <= MaxOpen
        /\ hist' = Append(hist, last') /\ n' = n + 1
        /\ UNCHANGED <<mdl, phase, pv>>

ExtraPairs(mc) == UNION {{<<p[1], p[2]>> : p \in Range(x.pairs)} : x \in {y \in Range(In.extra) : y.mc = mc}}
ProbePairs(mc) == (Idx \X Idx) \cup ExtraPairs(mc)
\* the code space, probed without payload in the canonical context
Probe == /\ phase = "walk" /\ n = 1 /\ hist = <<CanonStart>> /\ ~failed /\ ~unspec
         /\ \E cv \in ProbePairs(mdl) :
               /\ CatStep(MkEv(mdl, cv[1], cv[2], <<>>, FALSE))
               /\ pv' = [c |-> cv[1], v |-> cv[2], acc |-> ~failed' /\ ~unspec']
         /\ phase' = "probe" /\ last' = NoEv
         /\ UNCHANGED <<n, hist, mdl>>

\* the code space of the base model once more after the thread has ended (OHx OHe):
\* listed events are still processed there (OF[ OF] of a thread that has ended), so the
\* rejection of unlisted codes is a separate obligation in that context (seeded change C18-13)
ProbeEnded == /\ phase = "walk" /\ n = 2 /\ mdl = "O" /\ last.m = "OHe" /\ ~failed /\ ~unspec
              /\ \E cv \in ProbePairs(mdl) :
                    /\ CatStep(MkEv(mdl, cv[1], cv[2], <<>>, FALSE))
                    /\ pv' = [c |-> cv[1], v |-> cv[2], acc |-> ~failed' /\ ~unspec']
              /\ phase' = "probeE" /\ last' = NoEv
              /\ UNCHANGED <<n, hist, mdl>>

CNext == Walk \/ Probe \/ ProbeEnded
CSpec == CInit /\ [][CNext]_cvars

\* UnlistedAreRejected, on the whole code space
ProbeConsistent ==
   phase \in {"probe", "probeE"} =>
      LET m == ModelOf(mdl) IN
      (~Listed(m, pv.c, pv.v)) => (pv.acc <=> Excepted(m, pv.c, pv.v))

ASSUME TLCSet(1, {}) /\ TLCSet(2, 0) /\ TLCSet(3, 0) /\ TLCSet(4, 0)
Export ==
   /\ (phase' = "walk" /\ last'.mc = mdl /\ <<mdl, last'.c, last'.v>> \notin TLCGet(1)) =>
         /\ TLCSet(1, TLCGet(1) \cup {<<mdl, last'.c, last'.v>>})
         /\ PrintT(<<"WIT", ToJson([mc |-> mdl, ev |-> Slim(last'),
                                    pre |-> [i \in 1..Len(hist) |-> Slim(hist[i])]])>>)
   /\ (phase' = "probeE") =>
         /\ TLCSet(4, TLCGet(4) + 1)
         /\ (~Listed(ModelOf(mdl), pv'.c, pv'.v) /\ pv'.acc) =>
               PrintT(<<"ACCE", ToJson([mc |-> mdl, c |-> pv'.c, v |-> pv'.v])>>)
   /\ (phase' = "probe") =>
         /\ TLCSet(2, TLCGet(2) + 1)
         /\ (ExpectReject(ModelOf(mdl), pv'.c, pv'.v) => TLCSet(3, TLCGet(3) + 1))
         /\ (~Listed(ModelOf(mdl), pv'.c, pv'.v) /\ ~ExpectReject(ModelOf(mdl), pv'.c, pv'.v)) =>
               PrintT(<<"ACC", ToJson([mc |-> mdl, c |-> pv'.c, v |-> pv'.v])>>)

\* ListedAreProcessed: every listed event is accepted in some reachable context,
\* and a verdict was produced for every code of the space (run with one worker:
\* the registers are per worker)
Post ==
   /\ PrintT(<<"SUM", ToJson([listed |-> Cardinality(AllListed), witnessed |-> Cardinality(TLCGet(1)),
                              probes |-> TLCGet(2), expect_reject |-> TLCGet(3),
                              unwitnessed |-> AllListed \ TLCGet(1)])>>)
   /\ AllListed \subseteq TLCGet(1)
   /\ LET RECURSIVE Tot(_)
          Tot(M) == IF M = {} THEN 0 ELSE LET m == CHOOSE x \in M : TRUE IN Cardinality(ProbePairs(m.mc)) + Tot(M \ {m})
      IN TLCGet(2) = Tot(RunModels)
   /\ PrintT(<<"SUME", ToJson([ended_probes |-> TLCGet(4)])>>)
   /\ ((\E m \in RunModels : m.mc = "O") => TLCGet(4) = Cardinality(ProbePairs("O")))
=============================================================================
