/* chanprvharness: replays TLC-generated call sequences (spec/ChanPrv.tla) on
 * the real struct chan / struct bay / struct prv / struct track of the
 * emulator (libemu.a) and prints what the code answered.  Nothing in here
 * knows what the answer should be.
 *
 * usage: chanprvharness <file>      (CHANPRV_VERBOSE=1 keeps the library's stderr)
 *
 * input, one sequence per line:
 *     <tracks> <stprops> <sgprops> <nrows> | <call> <call> ...
 *   tracks   letters a (TRACK_TH_ANY) r (TRACK_TH_RUN) c (TRACK_TH_ACT) u (cpu mux), or -
 *            all over the stack channel st; select ts (cpu: select cs, inputs st, sg)
 *   props    three digits: CHAN_DIRTY_WRITE CHAN_ALLOW_DUP CHAN_IGNORE_DUP
 *   nrows    rows of the trace (prv_open_file)
 *   calls    R:<target>:<row>:<type>:<flags>   prv_register (target: st sg any run act cpu)
 *            s:<chan>:<v>  chan_set    u:<chan>:<v>  chan_push    o:<chan>:<v>  chan_pop
 *            f:<chan>      chan_flush  P  bay_propagate   A:<t>  prv_advance   C  prv_close
 *            v = n (null) or an integer (int64)
 * output, one line per sequence:
 *     <answer> <answer> ... | H <duration> <nrows> | <row>:<time>:<type>:<value> ...
 *   answer   R<rc> / A<rc> / C<rc>; for channel calls <rc>[<chan>=<shown>,<last_value>,<is_dirty>,<depth>];
 *            for P the same with every channel (st sg ts cs run act cpu as wired)
 *   the file is read back after prv_close.  "CRASH sig=<n> call=<k>" if the code
 *   died in call k (die()/abort, a signal, or 10 s without progress);
 *   "SETUP <call>" if the code refused one of the wiring calls (bay_register,
 *   track_init, track_connect_thread, track_set_select, track_set_input,
 *   prv_open_file); "BAD ..." if the harness could not read the sequence.
 */
#include <signal.h>
#include <stdio.h>
#include <stdlib.h>
#include <string.h>
#include <sys/mman.h>
#include <sys/wait.h>
#include <unistd.h>
#include "emu/bay.h"
#include "emu/chan.h"
#include "emu/mux.h"
#include "emu/pv/prv.h"
#include "emu/thread.h"
#include "emu/track.h"
#include "emu/value.h"
#include "common.h"

struct progress {
	volatile long done;  /* sequences completely answered */
	volatile long call;  /* call in progress in the current sequence (1-based) */
};

static struct progress *prog;

/* the system of one sequence */
static struct bay bay;
static struct chan st, sg, ts, cs;
static struct track tr_any, tr_run, tr_act, tr_cpu;
static int has_any, has_run, has_act, has_cpu;
static struct prv prv;

static struct chan *
chan_by_name(const char *n)
{
	if (strcmp(n, "st") == 0) return &st;
	if (strcmp(n, "sg") == 0) return &sg;
	if (strcmp(n, "ts") == 0 && (has_run || has_act)) return &ts;
	if (strcmp(n, "cs") == 0 && has_cpu) return &cs;
	if (strcmp(n, "any") == 0 && has_any) return track_get_output(&tr_any);
	if (strcmp(n, "run") == 0 && has_run) return track_get_output(&tr_run);
	if (strcmp(n, "act") == 0 && has_act) return track_get_output(&tr_act);
	if (strcmp(n, "cpu") == 0 && has_cpu) return track_get_output(&tr_cpu);
	return NULL;
}

static int
parse_value(const char *s, struct value *v)
{
	if (strcmp(s, "n") == 0) {
		*v = value_null();
		return 0;
	}
	char *end;
	long long x = strtoll(s, &end, 10);
	if (*end != 0 || end == s)
		return -1;
	*v = value_int64((int64_t) x);
	return 0;
}

static void
print_value(FILE *o, struct value v)
{
	if (v.type == VALUE_NULL)
		fprintf(o, "n");
	else if (v.type == VALUE_INT64)
		fprintf(o, "%lld", (long long) v.i);
	else
		fprintf(o, "?%lld", (long long) v.type);
}

static void
observe(FILE *o, const char *name, struct chan *c)
{
	struct value v;
	if (chan_read(c, &v) != 0) {
		fprintf(o, "%s=readfail", name);
		return;
	}
	fprintf(o, "%s=", name);
	print_value(o, v);
	fprintf(o, ",");
	print_value(o, c->last_value);
	fprintf(o, ",%d,%d", c->is_dirty, c->type == CHAN_STACK ? c->data.stack.n : 0);
}

static void
observe_all(FILE *o)
{
	static const char *names[] = { "st", "sg", "ts", "cs", "run", "act", "cpu" };
	int first = 1;
	for (size_t i = 0; i < sizeof(names) / sizeof(names[0]); i++) {
		struct chan *c = chan_by_name(names[i]);
		if (c == NULL)
			continue;
		if (!first)
			fprintf(o, ";");
		first = 0;
		observe(o, names[i], c);
	}
}

static void
set_props(struct chan *c, const char *p)
{
	chan_prop_set(c, CHAN_DIRTY_WRITE, p[0] == '1');
	chan_prop_set(c, CHAN_ALLOW_DUP, p[1] == '1');
	chan_prop_set(c, CHAN_IGNORE_DUP, p[2] == '1');
}

/* builds the channels, the bay and the tracks as model_thread.c / model_cpu.c do */
static const char *
setup(const char *tracks, const char *stp, const char *sgp)
{
	has_any = strchr(tracks, 'a') != NULL;
	has_run = strchr(tracks, 'r') != NULL;
	has_act = strchr(tracks, 'c') != NULL;
	has_cpu = strchr(tracks, 'u') != NULL;
	if (strlen(stp) != 3 || strlen(sgp) != 3)
		return "props";

	bay_init(&bay);
	chan_init(&st, CHAN_STACK, "st");
	chan_init(&sg, CHAN_SINGLE, "sg");
	chan_init(&ts, CHAN_SINGLE, "ts");
	chan_init(&cs, CHAN_SINGLE, "cs");
	set_props(&st, stp);
	set_props(&sg, sgp);
	if (bay_register(&bay, &st) != 0 || bay_register(&bay, &sg) != 0
			|| bay_register(&bay, &ts) != 0 || bay_register(&bay, &cs) != 0)
		return "bay_register";

	memset(&tr_any, 0, sizeof(tr_any));
	memset(&tr_run, 0, sizeof(tr_run));
	memset(&tr_act, 0, sizeof(tr_act));
	memset(&tr_cpu, 0, sizeof(tr_cpu));
	if (has_any && track_init(&tr_any, &bay, TRACK_TYPE_TH, TRACK_TH_ANY, "trk.st") != 0)
		return "track_init any";
	if (has_run && track_init(&tr_run, &bay, TRACK_TYPE_TH, TRACK_TH_RUN, "trk.st") != 0)
		return "track_init run";
	if (has_act && track_init(&tr_act, &bay, TRACK_TYPE_TH, TRACK_TH_ACT, "trk.st") != 0)
		return "track_init act";
	if (has_cpu && track_init(&tr_cpu, &bay, TRACK_TYPE_TH, TRACK_TH_RUN, "trk.cpu") != 0)
		return "track_init cpu";

	/* thread tracking: every mode follows st, selected by the thread state channel */
	if (has_any && track_connect_thread(&tr_any, &st, &ts, 1) != 0)
		return "track_connect_thread any";
	if (has_run && track_connect_thread(&tr_run, &st, &ts, 1) != 0)
		return "track_connect_thread run";
	if (has_act && track_connect_thread(&tr_act, &st, &ts, 1) != 0)
		return "track_connect_thread act";
	/* CPU tracking: default selection over two inputs */
	if (has_cpu) {
		if (track_set_select(&tr_cpu, &cs, NULL, 2) != 0)
			return "track_set_select";
		if (track_set_input(&tr_cpu, 0, &st) != 0 || track_set_input(&tr_cpu, 1, &sg) != 0)
			return "track_set_input";
	}
	return NULL;
}

static void
dump_file(FILE *o, int fd)
{
	off_t len = lseek(fd, 0, SEEK_END);
	if (len < 0) {
		fprintf(o, "| H- |");
		return;
	}
	char *buf = malloc((size_t) len + 1);
	if (buf == NULL || pread(fd, buf, (size_t) len, 0) != len) {
		fprintf(o, "| H- |");
		free(buf);
		return;
	}
	buf[len] = 0;
	char *save = NULL;
	int first = 1;
	for (char *l = strtok_r(buf, "\n", &save); l; l = strtok_r(NULL, "\n", &save)) {
		if (first) {
			long long dur;
			int nrows, used = 0;
			first = 0;
			if (sscanf(l, "#Paraver (19/01/38 at 03:14):%lld_ns:0:1:1(%d:1)%n", &dur, &nrows, &used) == 2
					&& used == (int) strlen(l))
				fprintf(o, "| H %lld %d |", dur, nrows);
			else
				fprintf(o, "| H? %s |", l);
			continue;
		}
		long long row, t, ty, val;
		int used = 0;
		if (sscanf(l, "2:0:1:1:%lld:%lld:%lld:%lld%n", &row, &t, &ty, &val, &used) == 4
				&& used == (int) strlen(l))
			fprintf(o, " %lld:%lld:%lld:%lld", row, t, ty, val);
		else
			fprintf(o, " X%s", l);
	}
	if (first)
		fprintf(o, "| H- |");
	free(buf);
}

/* runs one sequence; the answer goes to o */
static void
run_line(char *line, FILE *o)
{
	char tracks[16], stp[8], sgp[8];
	long nrows = 0;
	int used = 0;
	if (sscanf(line, "%15s %7s %7s %ld |%n", tracks, stp, sgp, &nrows, &used) != 4 || used == 0) {
		fprintf(o, "BAD header");
		return;
	}
	const char *e = setup(tracks, stp, sgp);
	if (e != NULL) {
		fprintf(o, "%s %s", strcmp(e, "props") == 0 ? "BAD" : "SETUP", e);
		return;
	}
	int fd = memfd_create("prv", 0);
	if (fd < 0) {
		fprintf(o, "BAD memfd");
		return;
	}
	FILE *f = fdopen(dup(fd), "w");
	if (f == NULL) {
		fprintf(o, "BAD fdopen");
		return;
	}
	if (prv_open_file(&prv, nrows, f) != 0) {
		fprintf(o, "SETUP prv_open_file");
		return;
	}
	int closed = 0;
	long k = 0;
	char *save = NULL;
	for (char *tok = strtok_r(line + used, " \n", &save); tok; tok = strtok_r(NULL, " \n", &save)) {
		prog->call = ++k;
		char a[32], b[32];
		long row, ty, fl;
		long long t;
		struct value v;
		struct chan *c;
		if (k > 1)
			fprintf(o, " ");
		if (sscanf(tok, "R:%31[^:]:%ld:%ld:%ld", a, &row, &ty, &fl) == 4) {
			if ((c = chan_by_name(a)) == NULL) {
				fprintf(o, "BAD target %s", a);
				return;
			}
			fprintf(o, "R%d", prv_register(&prv, row, ty, &bay, c, fl));
		} else if ((tok[0] == 's' || tok[0] == 'u' || tok[0] == 'o')
				&& sscanf(tok + 1, ":%31[^:]:%31s", a, b) == 2) {
			if ((c = chan_by_name(a)) == NULL || parse_value(b, &v) != 0) {
				fprintf(o, "BAD call %s", tok);
				return;
			}
			int rc = tok[0] == 's' ? chan_set(c, v) : tok[0] == 'u' ? chan_push(c, v) : chan_pop(c, v);
			fprintf(o, "%d[", rc);
			observe(o, a, c);
			fprintf(o, "]");
		} else if (sscanf(tok, "f:%31s", a) == 1) {
			if ((c = chan_by_name(a)) == NULL) {
				fprintf(o, "BAD call %s", tok);
				return;
			}
			fprintf(o, "%d[", chan_flush(c));
			observe(o, a, c);
			fprintf(o, "]");
		} else if (strcmp(tok, "P") == 0) {
			fprintf(o, "%d[", bay_propagate(&bay));
			observe_all(o);
			fprintf(o, "]");
		} else if (sscanf(tok, "A:%lld", &t) == 1) {
			fprintf(o, "A%d", prv_advance(&prv, (int64_t) t));
		} else if (strcmp(tok, "C") == 0) {
			fprintf(o, "C%d", prv_close(&prv));
			closed = 1;
		} else {
			fprintf(o, "BAD token %s", tok);
			return;
		}
	}
	if (!closed)
		fflush(f);
	fprintf(o, " ");
	dump_file(o, fd);
	close(fd);
}

static void
worker(char **lines, long from, long n)
{
	for (long i = from; i < n; i++) {
		char *out = NULL;
		size_t len = 0;
		FILE *o = open_memstream(&out, &len);
		if (o == NULL)
			_exit(9);
		alarm(10);
		prog->call = 0;
		run_line(lines[i], o);
		alarm(0);
		fprintf(o, "\n");
		fclose(o);
		size_t off = 0;
		while (off < len) {
			ssize_t w = write(1, out + off, len - off);
			if (w <= 0)
				_exit(9);
			off += (size_t) w;
		}
		free(out);
		prog->done = i + 1;
	}
	_exit(0);
}

int
main(int argc, char *argv[])
{
	if (argc < 2)
		return 2;
	FILE *f = fopen(argv[1], "r");
	if (f == NULL)
		return 2;
	if (getenv("CHANPRV_VERBOSE") == NULL && !freopen("/dev/null", "w", stderr))
		return 2;

	char **lines = NULL;
	long n = 0, cap = 0;
	char *line = NULL;
	size_t lcap = 0;
	while (getline(&line, &lcap, f) > 0) {
		if (n == cap) {
			cap = cap ? 2 * cap : 1024;
			lines = realloc(lines, (size_t) cap * sizeof(char *));
			if (lines == NULL)
				return 2;
		}
		lines[n++] = strdup(line);
	}
	fclose(f);

	prog = mmap(NULL, sizeof(*prog), PROT_READ | PROT_WRITE, MAP_SHARED | MAP_ANONYMOUS, -1, 0);
	if (prog == MAP_FAILED)
		return 2;
	prog->done = 0;

	/* a worker answers sequences until it dies in one of them; the death is
	 * the answer to that sequence and the next worker goes on after it */
	while (prog->done < n) {
		fflush(stdout);
		pid_t pid = fork();
		if (pid < 0)
			return 2;
		if (pid == 0)
			worker(lines, prog->done, n);
		int status = 0;
		if (waitpid(pid, &status, 0) != pid)
			return 2;
		if (WIFEXITED(status) && WEXITSTATUS(status) == 0)
			continue;
		if (WIFEXITED(status) && WEXITSTATUS(status) == 9)
			return 2;
		printf("CRASH sig=%d call=%ld\n", WIFSIGNALED(status) ? WTERMSIG(status) : -WEXITSTATUS(status),
				(long) prog->call);
		fflush(stdout);
		prog->done = prog->done + 1;
	}
	return 0;
}
