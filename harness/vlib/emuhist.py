"""Transition-cover conformance of ovniemu against the Emu* specs.

TLC explores the bounded model (EmuMC + a cfg), printing every transition;
from the graph one emulator history is built per model transition (shortest
path to the source state, the event, and the shortest legal completion), the
history is materialised as a real trace, replayed by ovniemu and the
recorded observation (views after each event + verdict) is validated by
EmuTrace.tla.
"""
import hashlib
import json
import os
import random
import re
import struct
from collections import deque

from . import core, synth, tv

_MODELS = None


def model_table():
    global _MODELS
    if _MODELS is None:
        p = os.path.join(core.SPEC, "data", "events.json")
        _MODELS = json.load(open(p))["models"]
    return _MODELS


def require_for(chars):
    """metadata 'require' entries for the model characters"""
    req = {}
    for name, m in model_table().items():
        if m["char"] in chars and name != "ovni":
            req[name] = m["version"]
    return req


def h(s):
    return hashlib.md5(s.encode()).hexdigest()[:12]


class Graph:
    def __init__(self, lines):
        self.system = None
        self.trans = []          # dicts: src,dst (hashed), ev, ok, un, fin
        self.init = None
        for tg, obj in lines:
            if tg == "SYS":
                self.system = obj
            elif tg == "TR":
                t = {"src": h(obj["src"]), "dst": h(obj["dst"]), "ev": obj["ev"],
                     "ok": obj["ok"], "un": obj["un"], "fin": obj["fin"], "ctx": obj.get("ctx", "")}
                if obj.get("first"):
                    self.init = t["src"]
                self.trans.append(t)
        # dedupe (several workers may print the same transition twice)
        seen = set()
        uniq = []
        for t in self.trans:
            k = (t["src"], json.dumps(t["ev"], sort_keys=True))
            if k in seen:
                continue
            seen.add(k)
            uniq.append(t)
        self.trans = uniq
        self.out = {}
        for t in self.trans:
            self.out.setdefault(t["src"], []).append(t)
        if self.init is None:
            dsts = set(t["dst"] for t in self.trans)
            cands = [s for s in self.out if s not in dsts]
            self.init = cands[0] if cands else None
        self._paths()

    def _paths(self):
        # forward BFS over accepted transitions
        self.path = {self.init: []}
        dq = deque([self.init])
        while dq:
            s = dq.popleft()
            for t in self.out.get(s, []):
                if t["ok"] and not t["un"] and t["dst"] not in self.path:
                    self.path[t["dst"]] = self.path[s] + [t["ev"]]
                    dq.append(t["dst"])
        # backward BFS from states whose verdict at end of trace is "ok"
        goal = set(t["dst"] for t in self.trans if t["ok"] and not t["un"] and t["fin"] == "ok")
        rev = {}
        for t in self.trans:
            if t["ok"] and not t["un"]:
                rev.setdefault(t["dst"], []).append(t)
        self.compl = {g: [] for g in goal}
        dq = deque(goal)
        while dq:
            s = dq.popleft()
            for t in rev.get(s, []):
                if t["src"] not in self.compl:
                    self.compl[t["src"]] = [t["ev"]] + self.compl[s]
                    dq.append(t["src"])

    def histories(self, limit=None, rng=None):
        """one or two histories per transition: list of (kind, events, transition)"""
        out = []
        for t in self.trans:
            if t["src"] not in self.path:
                continue
            pre = self.path[t["src"]]
            if t["ok"] and not t["un"]:
                c = self.compl.get(t["dst"])
                out.append(("accept", pre + [t["ev"]] + (c or []), t))
                if c:
                    # the same history cut short: legal event by event, but the trace ends in a state that
                    # needed a completion (threads alive or never started, open regions under lint)
                    out.append(("open-end", pre + [t["ev"]], t))
            elif t["un"]:
                out.append(("unspec", pre + [t["ev"]], t))
            else:
                out.append(("reject", pre + [t["ev"]], t))
                c = self.compl.get(t["src"])
                if c:
                    out.append(("reject+completion", pre + [t["ev"]] + c, t))
        if limit and len(out) > limit:
            rng = rng or random.Random(1)
            rej = [x for x in out if x[0].startswith("reject")]
            acc = [x for x in out if not x[0].startswith("reject")]
            nrej = min(len(rej), limit // 2)
            out = _stratified(rej, nrej, rng) + _stratified(acc, limit - nrej, rng)
        return out


def same_category(a, b):
    """model and category byte agree (VTx / VTe / VTp ..., 6Sa / 6Sp ...)"""
    return a["m"][:2] == b["m"][:2]


def pair_histories(graph, n, rng, same=lambda a, b: a["m"] == b["m"]):
    """Two-step cover: an accepted transition followed by a second event of the same kind (by default the same
    mnemonic, any emitter and arguments) from the state it leads to.  The one-transition cover reaches every
    source state by a shortest path, which almost never contains two events of the same kind in a row; whatever
    an implementation remembers from one event to the next of that kind is only exercised by such pairs."""
    out = []
    for t1 in graph.trans:
        if not (t1["ok"] and not t1["un"]) or t1["src"] not in graph.path:
            continue
        for t2 in graph.out.get(t1["dst"], []):
            if t2["un"] or not same(t1["ev"], t2["ev"]):
                continue
            pre = graph.path[t1["src"]] + [t1["ev"], t2["ev"]]
            if t2["ok"]:
                out.append(("pair-accept", pre + (graph.compl.get(t2["dst"]) or []), t2, t1))
            else:
                out.append(("pair-reject", pre + (graph.compl.get(t1["dst"]) or []), t2, t1))
    groups = {}
    for x in out:
        key = (x[0], json.dumps(x[3]["ev"], sort_keys=True), json.dumps(x[2]["ev"], sort_keys=True))
        groups.setdefault(key, []).append(x)
    keys = sorted(groups)
    rng.shuffle(keys)
    sel = []
    rnd = 0
    while len(sel) < n:
        added = False
        for k in keys:
            g = groups[k]
            if rnd == 0:
                rng.shuffle(g)
            if rnd < len(g):
                sel.append(g[rnd][:3])
                added = True
                if len(sel) >= n:
                    break
        if not added:
            break
        rnd += 1
    return sel


def _stratified(items, n, rng):
    """Sample n histories so that every stratum (event, thread-local context of the source state, kind)
    is represented before any stratum gets a second member."""
    groups = {}
    for x in items:
        t = x[2]
        key = (x[0], json.dumps(t["ev"], sort_keys=True), t.get("ctx", "")) if t else ("extra",)
        groups.setdefault(key, []).append(x)
    keys = sorted(groups)
    rng.shuffle(keys)
    for k in keys:
        rng.shuffle(groups[k])
    out = []
    rnd = 0
    while len(out) < n:
        added = False
        for k in keys:
            g = groups[k]
            if rnd < len(g):
                out.append(g[rnd])
                added = True
                if len(out) >= n:
                    break
        if not added:
            break
        rnd += 1
    return out


def explore(cfg, workers=None, timeout=3000, module="EmuMC"):
    r = core.tlc(module, cfg, workers=workers, timeout=timeout, tags=("TR", "SYS"), heap="12g")
    core.tlc_expect_ok(r, cfg)
    return r, Graph(r.lines)


# --------------------------------------------------------------------------
# model event -> real event

# Task type labels whose hash lands on a boundary of the arithmetic of task_get_type_gid() (found once by
# brute force over the hash of uthash.h, committed as data): label ids 900.. stand for these texts.
#   hash + 666 wraps 2^32 | masked hash in the last 666 values below 2^31 | masked hash below the reserved
#   PCF values | gid = INT_MAX
BOUNDARY_LABELS = ["kernel_530061", "kernel_12052549", "kernel_10079980", "kernel_11048515", "task_1167807",
                   "stencil_block_4081935", "kernel_17765406", "kernel_18086839", "kernel_116275340"]


def label_text(k):
    # even label ids get a text with blanks and percent signs (legal in a label; the emulator has to carry it
    # into the .pcf verbatim); odd ones the plain "T<k>"
    if 900 <= k < 900 + len(BOUNDARY_LABELS):
        return BOUNDARY_LABELS[k - 900]
    return "T%d" % k if k % 2 else "T%d 100%% of it %%d" % k


_LABEL_RE = re.compile(r"T(\d+)(?: 100% of it %d)?$")


def concretise(e):
    """Model event record -> synth event (payload bytes)."""
    m = e["m"]
    a = e.get("a", [])
    out = {"th": e["th"], "m": m}
    if m in ("VYc", "6Yc"):
        if e.get("j", True) and len(a) >= 2:
            out["jumbo"] = (struct.pack("<I", a[0]) + label_text(a[1]).encode() + b"\0").hex()
        elif len(a) >= 2:
            # a NORMAL event (no jumbo flag) whose 16-byte payload is laid out like a jumbo type event
            # (size, type id, terminated label): it must be refused for not being jumbo, whatever it carries
            out["payload"] = (struct.pack("<II", 12, a[0] & 0xFFFFFFFF)
                              + ("T%d" % a[1]).encode()[:7].ljust(8, b"\0")).hex()
        else:
            out["payload"] = b"".join(struct.pack("<I", x & 0xFFFFFFFF) for x in a).hex()
    elif m[1] in "T" and m[0] in "V6":
        out["payload"] = b"".join(struct.pack("<I", x & 0xFFFFFFFF) for x in a).hex()
    elif m in ("OM[", "OM]", "OM="):
        if len(a) == 2:
            out["payload"] = struct.pack("<qi", a[0], a[1]).hex()
        else:
            out["payload"] = b"".join(struct.pack("<q", x) for x in a).hex()
    else:
        out["a"] = a
    return out


def meta_extra_for(system):
    """per-thread metadata additions (marks, rank) from the sys record"""
    extra = {}
    marks = system.get("marks") or []
    for i, th in enumerate(system["threads"]):
        d = {}
        if marks and i == 0:
            for mk in marks:
                d["ovni.mark.%d.title" % mk["type"]] = "mark%d" % mk["type"]
                d["ovni.mark.%d.chan_type" % mk["type"]] = "stack" if mk["stack"] else "single"
                d["ovni.mark.%d.labels" % mk["type"]] = {"1": "one", "2": "two"}
        if th.get("rank", -1) >= 0:
            d["ovni.rank"] = th["rank"]
            d["ovni.nranks"] = system.get("nranks", 4)
        if d:
            extra[i + 1] = d
    return extra


def type_label_map(tracedir):
    """gid -> integer code k for task type labels 'T<k>' (from thread.pcf)"""
    from . import emu
    out = {}
    for f in ("thread.pcf",):
        p = os.path.join(tracedir, f)
        if not os.path.exists(p):
            continue
        pcf = emu.Pcf(p)
        for ty in (11, 36):
            if ty in pcf.types:
                for v, lab in pcf.types[ty][1].items():
                    m = _LABEL_RE.match(lab.strip())
                    if m:
                        out[(ty, v)] = int(m.group(1))
    return out


_TYPEMAP = {}


def calibrate_types(bdir):
    """gid of the task type labels T0..T15 (the emulator only writes the PCF
    values of task types when the emulation finishes, so runs that fail are
    projected with the mapping learnt from a run that succeeds)."""
    if bdir in _TYPEMAP:
        return _TYPEMAP[bdir]
    import shutil
    from . import emu
    out = {}
    for mc, name, ty in (("V", "nosv", 11), ("6", "nanos6", 36)):
        d = core.mkscratch("cal")
        try:
            td = os.path.join(d, "ovni")
            system = {"threads": [{"tid": 101, "pid": 1001, "app": 1, "loom": 1, "rank": -1}],
                      "cpus": [{"loom": 1, "idx": 0, "phy": 10, "virt": False},
                               {"loom": 1, "idx": -1, "phy": -1, "virt": True}], "marks": [], "models": ["O", mc]}
            evs = [{"th": 1, "m": "OHx", "a": [0, 101, 7]}]
            evs += [{"th": 1, "m": mc + "Yc", "a": [k + 1, k], "j": True} for k in range(16)]
            evs += [{"th": 1, "m": "OHe", "a": []}]
            synth.materialise(td, system, [concretise(e) for e in evs], models=require_for({"O", mc}))
            r = emu.ovniemu(bdir, td, ("-l",))
            if not r.accepted:
                raise core.MachineryError("type calibration run failed: %s" % r.last_errors())
            for (t, gid), k in type_label_map(td).items():
                out[(t, gid)] = k
        finally:
            shutil.rmtree(d, ignore_errors=True)
    _TYPEMAP[bdir] = out
    return out


def tie_clocks(events, t0=1000, dt=10):
    """Clocks in which every other pair of consecutive events of the SAME thread happens at the same
    instant (order inside a stream is kept by the emulator; ties between streams are free, so those
    are not tied)."""
    out = []
    for i, e in enumerate(events):
        if i > 0 and i % 2 == 1 and events[i - 1]["th"] == e["th"]:
            out.append(out[-1])
        else:
            out.append((out[-1] + dt) if out else t0)
    return out


def run_one(bdir, system, events, lint=True, extra_args=(), view_from=0, ties=False):
    """Returns the execution (list of records for EmuTrace) and the EmuRun.
    ties: some consecutive events of one thread share their clock; the timelines then show only the
    state after the last event of such a group (the earlier ones carry no view)."""
    import shutil
    d = core.mkscratch("eh")
    try:
        td = os.path.join(d, "ovni")
        conc = [concretise(e) for e in events]
        models = require_for(set(system["models"]))
        mextra = meta_extra_for(system)
        if "-b" in extra_args and "V" in system["models"]:
            for k_ in range(1, len(system["threads"]) + 1):
                mextra.setdefault(k_, {})["nosv.can_breakdown"] = True
        clocks = synth.materialise(td, system, conc, models=models,
                                   meta_extra=mextra,
                                   clocks=tie_clocks(events) if ties else None)
        from . import emu
        args = (["-l"] if lint else []) + list(extra_args)
        r = emu.ovniemu(bdir, td, args)
        vs = None
        perr = None
        if os.path.exists(os.path.join(td, "thread.prv")) and os.path.exists(os.path.join(td, "thread.row")):
            try:
                vs, _ = synth.views(td, system, clocks)
                tl = dict(_TYPEMAP.get(bdir, {}))
                tl.update(type_label_map(td))
                if tl:
                    for cells in vs:
                        for c in cells:
                            if c[2] in (11, 36):
                                c[3] = tl.get((c[2], c[3]), -c[3])
            except Exception as ex:
                perr = repr(ex)
        recs = [dict(synth.sys_record(system), lint=bool(lint),
                     marks=system.get("marks") or [], models=sorted(system["models"]))]

        def tied(i):
            return i + 1 < len(clocks) and clocks[i + 1] == clocks[i]
        for i, e in enumerate(events):
            rec = {"e": "ev", "th": e["th"], "m": e["m"], "mc": e.get("mc", e["m"][0]),
                   "a": e.get("a", []), "j": bool(e.get("j", False)),
                   "hasview": vs is not None and i >= view_from and not tied(i),
                   "view": vs[i] if (vs is not None and i >= view_from and not tied(i)) else []}
            recs.append(rec)
        verdict = r.verdict if r.verdict in ("ok", "fail") else r.verdict
        recs.append({"e": "end", "verdict": verdict})
        return recs, r, perr
    finally:
        shutil.rmtree(d, ignore_errors=True)


def sys_with_rank(system):
    for t in system["threads"]:
        t.setdefault("rank", -1)
    return system


def conformance(ck, bdir, graph, tier, limit_quick=3000, limit_thorough=None, lint=True,
                label="", extra_histories=None, pairs=0, pair_same=None):
    rng = random.Random(core.seed())
    calibrate_types(bdir)
    system = sys_with_rank(graph.system)
    hs = graph.histories(limit=limit_quick if tier == "quick" else limit_thorough, rng=rng)
    if pairs:
        hs += pair_histories(graph, pairs, rng, **({"same": pair_same} if pair_same else {}))
    if extra_histories:
        hs += [("extra", ev, None) for ev in extra_histories]

    def one(x):
        k, (kind, events, t) = x
        return run_one(bdir, system, events, lint=lint, ties=(k % 4 == 3))

    results = core.pmap(one, list(enumerate(hs)))
    executions = [r[0] for r in results]
    tvr = tv.validate("EmuTrace", "EmuTrace.cfg", executions, None,
                      chunk=max(40, len(executions) // 8 + 1), parallel=8)
    ck.cov["traces_validated_against_impl"] += len(tvr.accepted)
    ck.cov["states"] += tvr.states
    ck.cov["transitions"] += tvr.generated
    kinds = {}
    for (kind, events, t), (recs, r, perr) in zip(hs, results):
        kinds[kind] = kinds.get(kind, 0) + 1
        ck.case(json.dumps(events, sort_keys=True), nontrivial=len(events) >= 2)
        if r.signal or r.timeout or r.sanitizer:
            ck.violation("%s ovniemu %s on a synthetic history: %s" % (label, r.verdict, json.dumps(events)),
                         {"history.json": events, "stderr.txt": r.text[-4000:]})
    ck.notes.setdefault("conformance", []).append(
        {"model": label, "histories": len(hs), "by_kind": kinds, "accepted_by_spec": len(tvr.accepted),
         "rejected_by_spec": len(tvr.rejected), "tlc_runs": tvr.tlc_runs})
    for (i, line, rec, tail, violated) in tvr.rejected:
        kind, events, t = hs[i]
        recs, r, perr = results[i]
        what = ("%s: ovniemu behaviour not explained by the specification at record #%d of a %s history\n"
                "record: %s\nemulator verdict: %s %s\nhistory: %s"
                % (label, line, kind, json.dumps(rec)[:1500], r.verdict, r.last_errors(2),
                   json.dumps(events)))
        if perr:
            what += "\nprojection error: " + perr
        ck.violation(what, {"history.json": events, "execution.ndjson": "\n".join(json.dumps(x) for x in recs),
                            "emu_stderr.txt": r.text[-4000:], "tlc_tail.txt": tail},
                     sig=sig_of(rec, events))
    for x in hs[:2] + hs[-2:]:
        ck.sample({"kind": x[0], "history": x[1]})
    return hs, results, tvr


def sig_of(rec, events):
    return "emu:%s" % (rec.get("m") or rec.get("e"))
