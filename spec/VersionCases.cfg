SPECIFICATION CSpec
CONSTANTS
  Alphabet = {}
  MaxLen = 0
  MaxV = 0
  HaveCodes = {}
  Models = {"ovni"}
  CoreModel = "ovni"
  Variant = "code"
INVARIANTS ParseRefines StrictInLenient SuffixIgnored NonNegative HaveWellFormed CaseRefines
ACTION_CONSTRAINT CExport
CHECK_DEADLOCK FALSE
