SPECIFICATION SpecFault
CONSTANTS
  JsonLast = TRUE
  CheckCopy = FALSE
INVARIANTS C10a C10b C10c
CHECK_DEADLOCK FALSE
