/* vercheck: runs the version gating code of the tree under test on the cases
 * exported by TLC (spec/Version.tla) and prints what the real code did.  No
 * expectation is computed here.
 *
 * usage: vercheck <mode> <infile> <outfile>
 *
 * Strings are given hex encoded, one per line ("-" = the empty string).
 *
 *   parse    version_parse() of src/include/version.h (compiled here from the
 *            tree under test):                 out: "<rc> <major> <minor> <patch>"
 *   compat   line "w1 w2 w3 h1 h2 h3", version_is_compatible(w, h):
 *                                              out: "<0|1>"
 *   check    ovni_version_check_str(s) of libovni.so in a forked child:
 *                                              out: "ok" | "abort" | "exit<N>" | "sig<N>"
 *   require  ovni_thread_require("vtest", s) of libovni.so in a forked child
 *            of an initialised thread (OVNI_TRACEDIR must be set): same output
 *
 * die() in the library calls abort(), interposed here: the child exits with
 * status 3 ("abort").  Diagnostics of the library go to /dev/null unless
 * VERCHECK_VERBOSE is set.
 */
#include <errno.h>
#include <fcntl.h>
#include <stdarg.h>
#include <stdio.h>
#include <stdlib.h>
#include <string.h>
#include <sys/types.h>
#include <sys/wait.h>
#include <unistd.h>

#include "ovni.h"
#include "version.h"

static int in_child = 0;

void abort(void)
{
	_exit(in_child ? 3 : 4);
}

/* err() of common.h used by version.h (libovni.so does not export verr) */
void verr(const char *prefix, const char *func, const char *errstr, ...)
{
	if (getenv("VERCHECK_VERBOSE") == NULL)
		return;
	va_list ap;
	va_start(ap, errstr);
	fprintf(stderr, "vercheck: %s: %s: ", prefix ? prefix : "", func ? func : "");
	vfprintf(stderr, errstr, ap);
	fputc('\n', stderr);
	va_end(ap);
}

static int hexval(int c)
{
	if (c >= '0' && c <= '9') return c - '0';
	if (c >= 'a' && c <= 'f') return c - 'a' + 10;
	if (c >= 'A' && c <= 'F') return c - 'A' + 10;
	return -1;
}

/* decodes in place; returns 0 on success */
static int unhex(const char *hex, char *out, size_t cap)
{
	size_t n = 0;
	if (strcmp(hex, "-") == 0) {
		out[0] = 0;
		return 0;
	}
	for (size_t i = 0; hex[i]; i += 2) {
		int a = hexval(hex[i]), b = hex[i + 1] ? hexval(hex[i + 1]) : -1;
		if (a < 0 || b < 0 || n + 1 >= cap)
			return -1;
		out[n++] = (char) (a * 16 + b);
	}
	out[n] = 0;
	return 0;
}

static void in_forked_child(FILE *out, void (*fn)(const char *), const char *s)
{
	fflush(out);
	pid_t p = fork();
	if (p < 0) {
		perror("fork");
		exit(2);
	}
	if (p == 0) {
		in_child = 1;
		fn(s);
		_exit(0);
	}
	int st = 0;
	if (waitpid(p, &st, 0) != p) {
		perror("waitpid");
		exit(2);
	}
	if (WIFSIGNALED(st))
		fprintf(out, "sig%d\n", WTERMSIG(st));
	else if (WEXITSTATUS(st) == 0)
		fprintf(out, "ok\n");
	else if (WEXITSTATUS(st) == 3)
		fprintf(out, "abort\n");
	else
		fprintf(out, "exit%d\n", WEXITSTATUS(st));
}

static void do_check(const char *s)
{
	ovni_version_check_str(s);
}

static void do_require(const char *s)
{
	ovni_thread_require("vtest", s);
}

int main(int argc, char *argv[])
{
	if (argc != 4) {
		fprintf(stderr, "usage: vercheck parse|compat|check|require in out\n");
		return 2;
	}
	const char *mode = argv[1];
	FILE *in = fopen(argv[2], "r");
	FILE *out = fopen(argv[3], "w");
	if (!in || !out) {
		perror("open");
		return 2;
	}
	if (getenv("VERCHECK_VERBOSE") == NULL) {
		int fd = open("/dev/null", O_WRONLY);
		if (fd >= 0)
			dup2(fd, 2);
	}
	if (!strcmp(mode, "require")) {
		ovni_proc_init(1, "vernode", (int) getpid());
		ovni_thread_init((pid_t) getpid());
	}
	char *line = NULL;
	size_t cap = 0;
	static char s[4096];
	while (getline(&line, &cap, in) > 0) {
		char *nl = strchr(line, '\n');
		if (nl) *nl = 0;
		if (line[0] == 0)
			continue;
		if (!strcmp(mode, "compat")) {
			int w[3], h[3];
			if (sscanf(line, "%d %d %d %d %d %d", &w[0], &w[1], &w[2], &h[0], &h[1], &h[2]) != 6) {
				fprintf(stderr, "vercheck: bad compat line '%s'\n", line);
				return 2;
			}
			fprintf(out, "%d\n", version_is_compatible(w, h));
			continue;
		}
		if (unhex(line, s, sizeof(s)) != 0) {
			fprintf(stderr, "vercheck: bad hex line\n");
			return 2;
		}
		if (!strcmp(mode, "parse")) {
			int t[3] = { -1, -1, -1 };
			int rc = version_parse(s, t);
			fprintf(out, "%d %d %d %d\n", rc, t[0], t[1], t[2]);
		} else if (!strcmp(mode, "check")) {
			in_forked_child(out, do_check, s);
		} else if (!strcmp(mode, "require")) {
			in_forked_child(out, do_require, s);
		} else {
			fprintf(stderr, "vercheck: unknown mode %s\n", mode);
			return 2;
		}
	}
	fclose(out);
	/* no ovni_thread_free/proc_fini: the trace of the "require" mode is scratch */
	_exit(0);
}
