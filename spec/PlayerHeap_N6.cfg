SPECIFICATION HSpec
CONSTANTS
  NS = 6
  MaxEv = 3
  Clocks = {0,1,2}
  Offsets <- OffsetsSmall
  NL = 2
  Base = 2
  PVariant = "ok"
  MPick = "min"
  HVariant = "ok"
INVARIANTS HeapStructure HeapHoldsPending RefinesMerge HNonDecreasing HPerStreamOrder HNoDuplicate HCorrectedClock HOutputTime HNoError HExactlyOnce HTerminates
CHECK_DEADLOCK FALSE
