---------------------------- MODULE PlayerTrace ----------------------------
(* Trace validation of the real replay tools against Merge.

   One execution = the replay of one trace directory by one tool:
     {"e":"sys", "tool":"dump"|"emu", "base":b, "loom":[..], "off":[..],
      "clocks":[[..],..]}                  the system that was materialised
     {"e":"em", "s":stream, "k":index of the event in its stream,
      "c":raw clock printed by ovnidump - base   (-1: not observed),
      "t":time in thread.prv                     (-1: not observed)}
                                            one per replayed event, in the
                                            order in which the tool replayed
     {"e":"end", "top":number of events counted by ovnitop (-1: not run)}
   Every observed emission must be an enabled Merge step (ties between equal
   corrected clocks are free), the Paraver time must be the corrected time
   minus the corrected time of the first emitted event, and at the end every
   cursor must stand at the end of its stream.  For tool = "dump" all
   offsets are zero (Player!EffOff).                                        *)
EXTENDS PlayerMerge, IOUtils

Log == ndJsonDeserialize(IOEnv.TRACE)

VARIABLE l
tvars == <<mvars, l>>

Rec == Log[l]
Is(k) == l <= Len(Log) /\ Rec.e = k /\ l' = l + 1

NoSys == [loom |-> <<>>, off |-> <<>>, clocks |-> <<>>, base |-> 0, tool |-> "emu"]
TInit == l = 1 /\ msys = NoSys /\ cursor = <<>> /\ emitted = <<>>

TSys == /\ Is("sys")
        /\ msys' = [loom |-> Rec.loom, off |-> Rec.off, clocks |-> Rec.clocks,
                    base |-> Rec.base, tool |-> Rec.tool]
        /\ cursor' = [s \in 1..Len(Rec.loom) |-> 0]
        /\ emitted' = <<>>

TEm == /\ Is("em")
       /\ Rec.s \in 1..NStreams(msys)
       /\ Rec.k = cursor[Rec.s] + 1                       \* order inside the stream, no repetition
       /\ MergeEmit(Rec.s)                                \* a minimal head
       /\ LET e == emitted'[Len(emitted')] IN
          /\ Rec.c # -1 => Rec.c = msys.clocks[Rec.s][Rec.k]
          /\ Rec.t # -1 => Rec.t = e.d                    \* output time = corrected - first

TotalEvents == LET RECURSIVE Sum(_)
                   Sum(i) == IF i = 0 THEN 0 ELSE Len(msys.clocks[i]) + Sum(i - 1)
               IN  Sum(NStreams(msys))

TEnd == /\ Is("end")
        /\ MergeDone                                      \* nothing lost
        /\ Rec.top # -1 => Rec.top = TotalEvents
        /\ UNCHANGED mvars

TNext == TSys \/ TEm \/ TEnd
TSpec == TInit /\ [][TNext]_tvars

Accepted == TLCGet("stats").diameter - 1 = Len(Log)
Report == PrintT(<<"CONSUMED", TLCGet("stats").diameter - 1, Len(Log)>>) /\ Accepted
=============================================================================
