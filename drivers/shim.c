/* LD_PRELOAD shim: truthful short writes.
 * With VERIF_SHORTWRITE=<n> in the environment every write() of more than n
 * bytes on a regular file transfers only about 40% of the request (at least
 * 1 byte) and returns that count, as a nearly full disk, a quota or an
 * interrupted write may do.  Everything else is passed through. */
#define _GNU_SOURCE
#include <dlfcn.h>
#include <stdlib.h>
#include <sys/stat.h>
#include <unistd.h>

ssize_t write(int fd, const void *buf, size_t count)
{
	static ssize_t (*real)(int, const void *, size_t) = NULL;
	static long limit = -2;
	if (!real)
		real = (ssize_t (*)(int, const void *, size_t)) dlsym(RTLD_NEXT, "write");
	if (limit == -2) {
		const char *e = getenv("VERIF_SHORTWRITE");
		limit = e ? atol(e) : -1;
	}
	if (limit >= 0 && (long) count > limit && fd > 2) {
		struct stat st;
		if (fstat(fd, &st) == 0 && S_ISREG(st.st_mode)) {
			size_t part = count * 2 / 5;
			if (part == 0)
				part = 1;
			return real(fd, buf, part);
		}
	}
	return real(fd, buf, count);
}
