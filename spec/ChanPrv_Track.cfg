SPECIFICATION Spec
CONSTANTS
  StackMax = 2
  NRows = 2
  Variant = "code"
  Tracks = {"any", "run", "act", "cpu"}
  Record = FALSE
  Setups <- SetupsTrack
VIEW MCView
INVARIANTS TypeOK DirtyListDrains FlushedIsShown StackDiscipline TrackView TimesSorted HeaderIsLastAdvance RegsDistinct
PROPERTIES StepProps
CHECK_DEADLOCK FALSE
