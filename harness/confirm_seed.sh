#!/bin/sh
# Developer tool: confirm a seeded change independently in a scratch worktree.
# usage: confirm_seed.sh <seed dir with patch.diff and demo/run.sh>
# prints: clean_demo=<rc> patched_build=<rc> patched_tests=<n passed>/<n> patched_demo=<rc>
set -u
seed=$(readlink -f "$1")
wt=$(mktemp -d /tmp/confwt-XXXXXX); rmdir "$wt"
git -C /repo worktree add -q "$wt" HEAD || exit 2
trap 'git -C /repo worktree remove --force "$wt" >/dev/null 2>&1' EXIT
b="$wt/_b"
cfg() { cmake -G Ninja -S "$wt" -B "$b" -DUSE_MPI=OFF -DCMAKE_BUILD_TYPE=RelWithDebInfo -DCMAKE_C_FLAGS=-Wno-error >/dev/null 2>&1 && ninja -C "$b" >/dev/null 2>&1; }
cfg || { echo "clean build failed"; exit 2; }
( cd "$seed/demo" && sh ./run.sh "$b" >/tmp/confirm_clean.log 2>&1 ); clean=$?
git -C "$wt" apply "$seed/patch.diff" || { echo "patch does not apply"; exit 2; }
cfg; pb=$?
tests=$(ctest --test-dir "$b" -j8 --timeout 900 2>&1 | grep "tests passed" | sed 's/.*, \([0-9]*\) tests failed out of \([0-9]*\)/\1 failed of \2/')
( cd "$seed/demo" && sh ./run.sh "$b" >/tmp/confirm_patched.log 2>&1 ); patched=$?
echo "clean_demo=$clean patched_build=$pb patched_tests=[$tests] patched_demo=$patched"
