SPECIFICATION GSpec
CONSTANTS
  NS = 5
  MaxEv = 4
  Clocks = {0,1,2,3}
  Offsets <- OffsetsStd
  NL = 2
  Base = 2
  PVariant = "ok"
  MPick = "min"
  HVariant = "ok"
CONSTRAINT GExport
CHECK_DEADLOCK FALSE
