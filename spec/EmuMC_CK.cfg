SPECIFICATION MCSpec
CONSTANTS
  System <- SysCK
  Alphabet <- AlphaCK
  MaxLen = 8
  Lint = TRUE
VIEW MCView
INVARIANT Inv
ACTION_CONSTRAINT Export
CHECK_DEADLOCK FALSE
