/* mtdrive: replays a TLC-generated schedule of N threads calling libovni.
 *
 * usage: mtdrive <plan> <log>          (OVNI_TRACEDIR must be set)
 *        mtdrive -free <plan> <log>    free-running mode (no gates): all threads start together
 *
 * plan:  line 1: N
 *        next N lines: program of thread 1..N: space separated ops
 *              proc_init thread_init emit flush cpu free proc_fini
 *        last line: schedule: space separated thread numbers, one per STEP
 *
 * A step runs the named thread from its current gate to its next gate.  Gates:
 * before every API call and at the hook points of the library
 * (ovni_verif_point, compiled with -DOVNI_VERIF):
 *     1 proc_init won the CAS   2 proc_init about to publish READY
 *     3 proc_fini won the CAS   4 thread_init saw READY
 * A die() of the library (abort) ends the calling thread only; it is logged
 * as a refusal with the diagnostic the library printed.
 *
 * log: one JSON line per step {"t":..,"op":..,"phase":..,"res":..,"msg":..}
 *      res: "hook1".."hook4" (stopped at a hook), "ok" (call returned), "refused" (die)
 */
#include <errno.h>
#include <fcntl.h>
#include <pthread.h>
#include <semaphore.h>
#include <sched.h>
#include <stdint.h>
#include <stdio.h>
#include <stdlib.h>
#include <string.h>
#include <unistd.h>

#include "ovni.h"

#define MAXT 8
#define MAXOPS 32

static int nthreads;
static char prog[MAXT][MAXOPS][16];
static int nops[MAXT];
static sem_t go[MAXT], arrived;
static __thread int me = -1;
static int free_running = 0;

/* what the running thread reports at its gate */
static volatile int cur_op[MAXT], cur_phase[MAXT], finished_thread[MAXT];
static volatile int step_op[MAXT], step_phase[MAXT];
static char last_res[32];
static int emitted[MAXT];
/* free-running mode: outcome of every call of every thread (1 ok, 2 refused), and driver-level
 * synchronisation ops: "await" = wait until some thread returned from ovni_proc_init,
 * "sync" = rendezvous of the threads that have a sync op (so that they enter the next call together) */
static volatile int outcome[MAXT][MAXOPS];
static volatile int proc_inited = 0;
static volatile int nsync_threads = 0, sync_arrived = 0;
static volatile int cur_free_op[MAXT];

static void gate(const char *res)
{
	if (free_running)
		return;
	snprintf(last_res, sizeof(last_res), "%s", res);
	sem_post(&arrived);
	sem_wait(&go[me]);
}

void ovni_verif_point(int id);
void ovni_verif_point(int id)
{
	if (me < 0 || free_running)
		return;
	char b[16];
	snprintf(b, sizeof(b), "hook%d", id);
	cur_phase[me]++;
	gate(b);
	step_op[me] = cur_op[me];
	step_phase[me] = cur_phase[me];
}

void abort(void)
{
	if (me < 0)
		_exit(4);
	if (free_running) {
		finished_thread[me] = 2;
		outcome[me][cur_free_op[me]] = 2;
		pthread_exit(NULL);
	}
	finished_thread[me] = 2;
	snprintf(last_res, sizeof(last_res), "refused");
	sem_post(&arrived);
	pthread_exit(NULL);
}

static void do_op(const char *op)
{
	if (!strcmp(op, "proc_init")) {
		ovni_proc_init(1, "node0", 1000);
		__atomic_store_n(&proc_inited, 1, __ATOMIC_SEQ_CST);
	} else if (!strcmp(op, "await")) {
		for (long i = 0; i < 2000000 && !__atomic_load_n(&proc_inited, __ATOMIC_SEQ_CST); i++)
			sched_yield();
	} else if (!strcmp(op, "sync")) {
		__atomic_add_fetch(&sync_arrived, 1, __ATOMIC_SEQ_CST);
		for (long i = 0; i < 20000000 && __atomic_load_n(&sync_arrived, __ATOMIC_SEQ_CST) < nsync_threads; i++)
			;
	} else if (!strcmp(op, "thread_init")) {
		/* VERIF_TID_BASE: thread ids base+1, base+2, ... (default 100); with 2147483640 they are ten
		 * digits long and differ in the last digit only */
		ovni_thread_init((getenv("VERIF_TID_BASE") ? atoi(getenv("VERIF_TID_BASE")) : 100) + me + 1);
	} else if (!strcmp(op, "emit")) {
		struct ovni_ev ev = {0};
		/* a correct program only reads the clock once its thread is initialised
		 * (ovni_clock_now() reads the process record) */
		ovni_ev_set_clock(&ev, ovni_thread_isready() ? ovni_clock_now() : 0);
		ovni_ev_set_mcv(&ev, "OB.");
		uint32_t id[2] = { (uint32_t) (me + 1), (uint32_t) (++emitted[me]) };
		ovni_payload_add(&ev, (uint8_t *) id, sizeof(id));
		ovni_ev_emit(&ev);
	} else if (!strcmp(op, "flush")) {
		ovni_flush();
	} else if (!strcmp(op, "cpu")) {
		ovni_add_cpu(me, me);
	} else if (!strcmp(op, "free")) {
		ovni_thread_free();
	} else if (!strcmp(op, "proc_fini")) {
		ovni_proc_fini();
	} else {
		fprintf(stderr, "mtdrive: unknown op %s\n", op);
		_exit(2);
	}
}

static void *body(void *arg)
{
	me = (int) (intptr_t) arg;
	if (!free_running)
		sem_wait(&go[me]);
	for (int i = 0; i < nops[me]; i++) {
		cur_op[me] = i;
		cur_phase[me] = 0;
		step_op[me] = i;
		step_phase[me] = 0;
		do_op(prog[me][i]);
		if (i + 1 < nops[me]) {
			cur_op[me] = i;
			gate("ok");
		}
	}
	finished_thread[me] = 1;
	if (!free_running) {
		snprintf(last_res, sizeof(last_res), "ok");
		sem_post(&arrived);
	}
	return NULL;
}

static pthread_barrier_t bar;
static void *body_free(void *arg)
{
	me = (int) (intptr_t) arg;
	pthread_barrier_wait(&bar);
	for (int i = 0; i < nops[me]; i++) {
		cur_free_op[me] = i;
		do_op(prog[me][i]);
		outcome[me][i] = 1;
	}
	finished_thread[me] = 1;
	return NULL;
}

int main(int argc, char *argv[])
{
	int a = 1;
	if (argc > 1 && !strcmp(argv[1], "-free")) {
		free_running = 1;
		a = 2;
	}
	if (argc < a + 2) {
		fprintf(stderr, "usage: mtdrive [-free] plan log\n");
		return 2;
	}
	FILE *f = fopen(argv[a], "r");
	FILE *lg = fopen(argv[a + 1], "w");
	if (!f || !lg)
		return 2;
	char line[4096];
	fgets(line, sizeof(line), f);
	nthreads = atoi(line);
	for (int t = 0; t < nthreads; t++) {
		fgets(line, sizeof(line), f);
		char *tok = strtok(line, " \n");
		while (tok && nops[t] < MAXOPS) {
			snprintf(prog[t][nops[t]++], 16, "%s", tok);
			tok = strtok(NULL, " \n");
		}
	}
	static int sched[4096];
	int ns = 0;
	if (fgets(line, sizeof(line), f)) {
		char *tok = strtok(line, " \n");
		while (tok && ns < 4096) {
			sched[ns++] = atoi(tok) - 1;
			tok = strtok(NULL, " \n");
		}
	}

	/* library diagnostics go to a file we can read back */
	char errpath[4096];
	snprintf(errpath, sizeof(errpath), "%s.stderr", argv[a + 1]);
	int efd = open(errpath, O_RDWR | O_CREAT | O_TRUNC, 0644);
	dup2(efd, 2);
	off_t epos = 0;

	pthread_t th[MAXT];
	if (free_running) {
		for (int t = 0; t < nthreads; t++)
			for (int i = 0; i < nops[t]; i++)
				if (!strcmp(prog[t][i], "sync")) {
					nsync_threads++;
					break;
				}
		pthread_barrier_init(&bar, NULL, (unsigned) nthreads);
		for (int t = 0; t < nthreads; t++)
			pthread_create(&th[t], NULL, body_free, (void *) (intptr_t) t);
		for (int t = 0; t < nthreads; t++)
			pthread_join(th[t], NULL);
		for (int t = 0; t < nthreads; t++) {
			fprintf(lg, "{\"t\":%d,\"end\":%d,\"outs\":[", t + 1, finished_thread[t]);
			int first = 1;
			for (int i = 0; i < nops[t]; i++) {
				if (!outcome[t][i])
					break;
				fprintf(lg, "%s%d", first ? "" : ",", outcome[t][i]);
				first = 0;
			}
			fprintf(lg, "]}\n");
		}
		fclose(lg);
		return 0;
	}

	sem_init(&arrived, 0, 0);
	for (int t = 0; t < nthreads; t++) {
		sem_init(&go[t], 0, 0);
		pthread_create(&th[t], NULL, body, (void *) (intptr_t) t);
	}
	for (int s = 0; s < ns; s++) {
		int t = sched[s];
		if (t < 0 || t >= nthreads || finished_thread[t]) {
			fprintf(lg, "{\"t\":%d,\"skip\":true}\n", t + 1);
			continue;
		}
		sem_post(&go[t]);
		sem_wait(&arrived);
		int wop = step_op[t];
		int phase_before = step_phase[t];
		char msg[1024] = "";
		off_t end = lseek(efd, 0, SEEK_END);
		if (end > epos) {
			ssize_t n = pread(efd, msg, sizeof(msg) - 1 < (size_t) (end - epos) ? sizeof(msg) - 1 : (size_t) (end - epos), epos);
			if (n > 0)
				msg[n] = 0;
			epos = end;
		}
		for (char *p = msg; *p; p++)
			if (*p == '"' || *p == '\\' || *p == '\n' || *p == '\t')
				*p = ' ';
		fprintf(lg, "{\"t\":%d,\"op\":\"%s\",\"phase\":%d,\"res\":\"%s\",\"msg\":\"%s\"}\n",
				t + 1, prog[t][wop], phase_before, last_res, msg);
		fflush(lg);
	}
	fclose(lg);
	/* threads still parked at a gate are abandoned */
	_exit(0);
}
