--------------------------- MODULE RtStreamGen ---------------------------
(* Behaviour generator for the conformance step: RtStream at the real
   capacity, extended with a history variable; run with -simulate, every
   walk that reaches MaxCalls calls is printed as an op script.           *)
EXTENDS RtStream, Json, TLC

VARIABLE hist
gvars == <<vars, hist>>

GInit == Init /\ hist = <<>>

GNext ==
   \/ ThreadInit /\ hist' = Append(hist, [op |-> "thread_init"])
   \/ \E p \in PaySizes : Emit(p, "u") /\ hist' = Append(hist, [op |-> "emit", pay |-> p, kind |-> "u"])
   \/ Emit(12, "m") /\ hist' = Append(hist, [op |-> "emit", pay |-> 12, kind |-> "m"])
   \/ \E n \in JumboSizes : EmitJumbo(n) /\ hist' = Append(hist, [op |-> "jumbo", n |-> n])
   \/ Flush /\ hist' = Append(hist, [op |-> "flush"])

GSpec == GInit /\ [][GNext]_gvars

Export == calls = MaxCalls => PrintT(<<"TR", ToJson(hist)>>)
GBound == calls <= MaxCalls
=============================================================================
