SPECIFICATION Spec
CONSTANTS
  MaxLen = 5
  MaxClock = 3
  Rings = {3, 5, 8}
  MaxB = 1
  MaxJ = 1
  Strict = TRUE
  JumboInside = FALSE
  ExportUnspecLen = 4
  Variant = "code"
INVARIANTS Refinement IdempotentInv RunAgrees Tight AfterSort Lemmas RegionAgree RingInv

CHECK_DEADLOCK FALSE
