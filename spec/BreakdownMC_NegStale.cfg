SPECIFICATION BSpec
CONSTANTS
  System <- SysC20VQ
  Alphabet <- AlphaC20VQ
  MaxLen = 8
  Lint = TRUE
  SortVariant = "code"
  StaleOK = FALSE
VIEW BView
INVARIANT BInv
CHECK_DEADLOCK FALSE
