SPECIFICATION Spec
CONSTANTS
  StackMax = 2
  NRows = 2
  Variant = "code"
  Tracks = {}
  Record = TRUE
  Setups <- SetupsHist
INVARIANTS TypeOK DirtyListDrains FlushedIsShown StackDiscipline TrackView TimesSorted HeaderIsLastAdvance RegsDistinct Filter LogHeader
PROPERTIES StepProps
CHECK_DEADLOCK FALSE
