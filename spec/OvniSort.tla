------------------------------ MODULE OvniSort ------------------------------
(* C16: ovnisort yields a stable sorted permutation and touches only what it
   must.

   PROPERTY LAYER.  Pure operators over an input stream `in` and an output
   stream `out` (sequences of event records [id, clk, k, sz]; k = "n" normal,
   "b" the OU[ marker, "e" the OU] marker, "j" jumbo; in[i].id = i).  They
   say what a correct sorter must deliver and under which preconditions it
   MUST succeed; nothing here mentions rings or pointers.  The operators are
   written with quantifiers / SelectSeq (no recursion over the stream, except
   Size, which OvniSortTrace.tla replaces by the observed file sizes) so that
   they can be evaluated on recorded streams of thousands of events.

   IMPLEMENTATION LAYER.  src/emu/ovnisort.c as written: the S/U/X region
   automaton of stream_winsort, the ring (head/tail/size, wrap-around, one
   slot always free), find_destination (backwards search with strict <,
   "ring not full => we are at the start of the stream"), find_min_clock,
   sort_buf (stable sort of [first, next)), write_stream, rebuild_ring and
   ring_check.  Pointers are byte offsets into the stream (event sizes
   differ, so a stale pointer may point into the middle of an event).

   REFINEMENT.  The stream is produced on line (the tool reads it event by
   event and a stream that ends after any event is a complete input), so
   every reachable state is the final state of the tool on the stream `in`
   read so far: the invariants below are `Impl => Property` for ALL streams
   within the bounds of the configuration.                                 *)
EXTENDS Naturals, Integers, Sequences, FiniteSets, TLC, Json

CONSTANTS MaxLen,       \* longest stream
          MaxClock,     \* clocks 0..MaxClock
          Rings,        \* values of -n (ring size; the ring holds n-1 events)
          MaxB,         \* at most MaxB OU[ events (and, if ~Strict, OU] events)
          MaxJ,         \* at most MaxJ jumbo events
          Strict,       \* TRUE: OU[ only outside a region, OU] only inside
          JumboInside,  \* TRUE: jumbo events only inside regions
          Variant,      \* "code" = ovnisort.c; others are deliberately wrong
          ExportUnspecLen  \* export trivial / unspecified streams only up to this length

-----------------------------------------------------------------------------
(*                            PROPERTY  LAYER                              *)

MinOf(S) == CHOOSE x \in S : \A y \in S : x <= y
MaxOf(S) == CHOOSE x \in S : \A y \in S : x >= y

WellFormed(in) == \A i \in DOMAIN in : in[i].id = i

Sorted(s) == \A i \in 1..(Len(s) - 1) : s[i].clk <= s[i + 1].clk

\* same events (whole records: "bytes unchanged"), each exactly once
Permutation(in, out) ==
   /\ Len(out) = Len(in)
   /\ {out[i] : i \in DOMAIN out} = {in[i] : i \in DOMAIN in}

\* equal-clock events keep their input order (ids are input positions)
Stable(out) ==
   \A i, j \in DOMAIN out : (i < j /\ out[i].clk = out[j].clk) => out[i].id < out[j].id

SortedStablePermutation(in, out) == Permutation(in, out) /\ Sorted(out) /\ Stable(out)

\* the unique such output, constructively (used for the export and as a lemma)
Rank(s, i) == Cardinality({j \in DOMAIN s : \/ s[j].clk < s[i].clk
                                            \/ (s[j].clk = s[i].clk /\ j <= i)})
StableSort(s) == [r \in 1..Len(s) |-> s[CHOOSE i \in DOMAIN s : Rank(s, i) = r]]

RECURSIVE SizeTo(_, _)
SizeTo(s, i) == IF i = 0 THEN 0 ELSE s[i].sz + SizeTo(s, i - 1)   \* bytes of s[1..i]
Size(s) == SizeTo(s, Len(s))
SameSize(in, out) == Size(in) = Size(out)

\* The earliest event that has to move: the first one with a strictly earlier
\* event somewhere after it (Len+1 if the stream is sorted).  Everything in
\* front of it is already in its final place, so nothing there may change.
IsLate(in, i) == \E j \in (i + 1)..Len(in) : in[j].clk < in[i].clk
FirstMoved(in) == LET late == {i \in DOMAIN in : IsLate(in, i)}
                  IN IF late = {} THEN Len(in) + 1 ELSE MinOf(late)
PrefixUntouched(in, out) ==
   LET fm == FirstMoved(in) IN \A i \in 1..(fm - 1) : i <= Len(out) /\ out[i] = in[i]

(* Unsorted regions (doc/user/runtime/kernel.md): a region is opened by the
   first OU[ that is not inside a region and closed by the first OU] after
   it; an OU[ inside a region and an OU] outside are ordinary events.  After
   any OU] we are outside, so: an OU] closes a region iff there is an OU[
   between the previous OU] (or the start) and it; the first such OU[ opens
   the region.  (Declarative; stream_winsort's automaton is checked to agree
   with it by the invariant RegionAgree.)                                  *)
Regions(s) ==                               \* closed regions <<open, close>>
   LET Es == {i \in DOMAIN s : s[i].k = "e"}
       prev(e) == LET P == {x \in Es : x < e} IN IF P = {} THEN 0 ELSE MaxOf(P)
       Bs(e) == {i \in (prev(e) + 1)..(e - 1) : s[i].k = "b"}
   IN {<<MinOf(Bs(e)), e>> : e \in {x \in Es : Bs(x) # {}}}
Inside(s) == UNION {(r[1] + 1)..(r[2] - 1) : r \in Regions(s)}

(* Precondition 1: the only out-of-order events lie strictly inside closed
   regions, and they are LATE events (kernel events copied into the stream
   after the fact): none is later than the marker that closes its region.  *)
OnlyRegionsUnsorted(in) ==
   LET rs == Regions(in)
       ins == UNION {(r[1] + 1)..(r[2] - 1) : r \in rs}
   IN /\ Sorted(SelectSeq(in, LAMBDA e : e.id \notin ins))
      /\ \A r \in rs : \A i \in (r[1] + 1)..(r[2] - 1) : in[i].clk <= in[r[2]].clk

(* Precondition 2: the insertion depth of every region is within the look
   back.  The depth of a region is the number of events in front of its
   closing marker that are not earlier than the earliest event of the region
   (they all have to be passed, the region's own events and OU[ included);
   a ring of size n remembers n-1 events and one more is needed to find the
   predecessor (or to know that the start of the stream was reached).      *)
Depth(in, r) ==
   LET m == MinOf({in[i].clk : i \in (r[1] + 1)..(r[2] - 1)})
   IN Cardinality({i \in 1..(r[2] - 1) : in[i].clk >= m})
WithinLookBack(in, n) ==
   \A r \in Regions(in) : r[2] > r[1] + 1 => Depth(in, r) <= n - 2

\* what the property demands of a run on (in, n)
Expected(in, n) == IF ~OnlyRegionsUnsorted(in) THEN "unspec"
                   ELSE IF WithinLookBack(in, n) THEN "sorted" ELSE "mayfail"

(* The verdict on one run: st = "ok" (exit 0), "fail" (exit 1 + message),
   "die" (abort + message); out = the stream left on disk.
   - whatever happens the events survive and nothing in front of the first
     event that has to move is touched;
   - under both preconditions the tool MUST succeed;
   - when only marked regions are unsorted it never exits 0 with a wrong
     stream, and when it cannot sort it fails (exit 1), it does not abort;
   - outside precondition 1 (garbage in) the outcome is unspecified.        *)
Survives(in, out) == Permutation(in, out) /\ SameSize(in, out) /\ PrefixUntouched(in, out)
Verdict(in, n, st, out) ==
   LET oru == OnlyRegionsUnsorted(in) IN
   /\ (oru /\ WithinLookBack(in, n)) => st = "ok"
   /\ oru => st \in {"ok", "fail"}
   /\ (oru /\ st = "ok") => SortedStablePermutation(in, out)
   \* "When it cannot sort it fails and says so": whatever the input, success means a sorted stream
   /\ st = "ok" => Sorted(out)
Conforms(in, n, st, out) == Survives(in, out) /\ Verdict(in, n, st, out)

(* T(stream, n) = [st, out] is the tool as a function.  Sorting again changes
   nothing on disk.  The second run need not SUCCEED: late events that were
   moved in front of the closing marker of an EARLIER region make that region
   deeper, and ovnisort wants to look back over a whole region even if it is
   already in place (e.g. -n 5 on  OU[@0 J@0 e@0 OU]@2 OU[@2 e@1 OU]@2 : the
   first run sorts, the second run exits 1 on the sorted stream).  It succeeds
   whenever the look back still suffices for the sorted stream.             *)
Idempotent(T(_, _), in, n) ==
   (OnlyRegionsUnsorted(in) /\ T(in, n).st = "ok") =>
       LET o == T(in, n).out
           again == T(o, n)
       IN /\ again.out = o
          /\ again.st \in {"ok", "fail"}
          /\ WithinLookBack(o, n) => again.st = "ok"

\* `ovnisort -c` afterwards and the emulator's monotonicity check
CheckModePasses(out) == Sorted(out)

-----------------------------------------------------------------------------
(*                         IMPLEMENTATION  LAYER                           *)

SzOf(k) == IF k = "j" THEN 3 ELSE 1
Off(s, i) == SizeTo(s, i - 1)                   \* byte offset of event i
IdxAt(s, off) == LET S == {i \in 1..Len(s) : Off(s, i) = off}    \* 0: not an event boundary
                 IN IF S = {} THEN 0 ELSE CHOOSE i \in S : TRUE

Dec(i, n) == IF i - 1 < 0 THEN n - 1 ELSE i - 1
Inc(i, n) == IF i + 1 >= n THEN 0 ELSE i + 1

\* struct ring + struct sortplan + locals of stream_winsort; buf = the file
ImplInit(n, stream) ==
   [n |-> n, buf |-> stream, st |-> "S", bad0 |-> -1, head |-> 0, tail |-> 0,
    ev |-> [i \in 0..(n - 1) |-> -1], status |-> "run"]

RingAdd(S, o) ==
   LET t1 == IF S.tail + 1 >= S.n THEN 0 ELSE S.tail + 1
       h1 == IF S.head = t1 THEN t1 + 1 ELSE S.head
       h2 == IF h1 >= S.n THEN 0 ELSE h1
   IN [S EXCEPT !.ev = [@ EXCEPT ![S.tail] = o], !.tail = t1, !.head = h2]

Less(a, b) == IF Variant = "le" THEN a <= b ELSE a < b

RECURSIVE FDLoop(_, _, _, _, _)
FDLoop(S, clock, i, end, nback) ==
   IF i = end THEN [r |-> "none", i |-> -1, nback |-> nback]
   ELSE LET x == IdxAt(S.buf, S.ev[i]) IN
        IF x = 0 THEN [r |-> "garbage", i |-> -1, nback |-> nback]
        ELSE IF Less(S.buf[x].clk, clock) THEN [r |-> "found", i |-> i, nback |-> nback]
        ELSE FDLoop(S, clock, Dec(i, S.n), end, nback + 1)

FindDestination(S, clock) ==
   LET start == IF S.tail - 1 >= 0 THEN S.tail - 1 ELSE S.n - 1
       end == IF S.head - 1 >= 0 THEN S.head - 1 ELSE S.n - 1
       l == FDLoop(S, clock, start, end, 0)
   IN IF l.r = "found" THEN [r |-> "ok", i |-> l.i]
      ELSE IF l.r = "garbage" THEN [r |-> "die", i |-> -1]
      ELSE IF Variant = "nofullcheck" THEN [r |-> "ok", i |-> S.head]
      ELSE IF l.nback < S.n - 1
           THEN IF S.head # 0 \/ S.tail >= S.n - 1 THEN [r |-> "die", i |-> -1]
                ELSE [r |-> "ok", i |-> S.head]
           ELSE [r |-> "fail", i |-> -1]

\* qsort on the table of event pointers, by clock (glibc: stable merge sort)
SortSeg(seg) ==
   IF Variant = "unstable"
   THEN LET rk(i) == Cardinality({j \in DOMAIN seg : \/ seg[j].clk < seg[i].clk
                                                      \/ (seg[j].clk = seg[i].clk /\ j >= i)})
        IN [r \in 1..Len(seg) |-> seg[CHOOSE i \in DOMAIN seg : rk(i) = r]]
   ELSE StableSort(seg)

RECURSIVE Rebuild(_, _, _, _, _, _, _)
Rebuild(ev, i, tail, n, off, nbuf, last) ==
   IF i = tail THEN [ok |-> off = last, ev |-> ev]
   ELSE IF off >= last THEN [ok |-> FALSE, ev |-> ev]             \* "exceeding last pointer"
   ELSE LET x == IdxAt(nbuf, off) IN
        IF x = 0 THEN [ok |-> FALSE, ev |-> ev]
        ELSE Rebuild([ev EXCEPT ![i] = off], Inc(i, n), tail, n, off + nbuf[x].sz, nbuf, last)

RECURSIVE RingCheck(_, _, _, _, _, _)
RingCheck(ev, buf, i, tail, n, lastclk) ==
   IF i = tail THEN TRUE
   ELSE LET x == IdxAt(buf, ev[i]) IN
        IF x = 0 THEN FALSE
        ELSE IF buf[x].clk < lastclk THEN FALSE
        ELSE RingCheck(ev, buf, Inc(i, n), tail, n, buf[x].clk)

\* execute_sort_plan; p = index of the closing OU] (sp.next), not yet in the ring
ExecPlan(S, p) ==
   LET buf == S.buf
       b0 == IdxAt(buf, S.bad0)
       clock0 == MinOf({buf[i].clk : i \in b0..(p - 1)})
       fd == FindDestination(S, clock0)
   IN IF b0 = 0 THEN [S EXCEPT !.status = "die"]
      ELSE IF fd.r # "ok" THEN [S EXCEPT !.status = fd.r]
      ELSE LET first == S.ev[fd.i]
               f == IdxAt(buf, first)
               next == Off(buf, p)
           IN IF f = 0 \/ first >= next THEN [S EXCEPT !.status = "die"]
              ELSE LET nbuf == SubSeq(buf, 1, f - 1) \o SortSeg(SubSeq(buf, f, p - 1))
                                 \o SubSeq(buf, p, Len(buf))
                       rb == IF Variant = "norebuild" THEN [ok |-> TRUE, ev |-> S.ev]
                             ELSE Rebuild(S.ev, fd.i, S.tail, S.n, first, nbuf, next)
                   IN IF ~rb.ok THEN [S EXCEPT !.buf = nbuf, !.status = "die"]
                      ELSE IF ~RingCheck(rb.ev, nbuf, fd.i, S.tail, S.n, 0)
                           THEN [S EXCEPT !.buf = nbuf, !.ev = rb.ev, !.status = "die"]
                      ELSE [S EXCEPT !.buf = nbuf, !.ev = rb.ev]

\* one iteration of the loop of stream_winsort on event p of S.buf
Process(S, p) ==
   IF S.status # "run" THEN S
   ELSE LET e == S.buf[p]
            o == Off(S.buf, p)
        IN IF S.st = "S" THEN RingAdd([S EXCEPT !.st = IF e.k = "b" THEN "U" ELSE "S"], o)
           ELSE IF S.st = "U"
                THEN IF e.k = "e" THEN RingAdd([S EXCEPT !.st = "S"], o)
                     ELSE RingAdd([S EXCEPT !.st = "X", !.bad0 = o], o)
           ELSE IF e.k = "e"
                THEN LET S1 == ExecPlan(S, p) IN
                     IF S1.status # "run" THEN S1
                     ELSE RingAdd([S1 EXCEPT !.st = "S", !.bad0 = -1], o)
                ELSE RingAdd(S, o)

\* the tool as a function of the whole stream
RECURSIVE RunFrom(_, _)
RunFrom(S, p) == IF p > Len(S.buf) THEN S ELSE RunFrom(Process(S, p), p + 1)
Run(stream, n) == RunFrom(ImplInit(n, stream), 1)
\* the stream is verified once more after sorting ("fix: ovnisort: fail when the stream is still unsorted");
\* Variant "nofinalcheck" is the pinned code, which exited 0 on e.g. an unclosed region
Outcome(S) == IF S.status = "run"
              THEN IF Variant # "code" \/ Sorted(S.buf) THEN "ok" ELSE "fail"   \* (the wrong variants are variants of the pinned code)
              ELSE S.status
Tool(stream, n) == LET S == Run(stream, n) IN [st |-> Outcome(S), out |-> S.buf]

-----------------------------------------------------------------------------
(*                      STATE  MACHINE  (on-line input)                     *)
VARIABLES in, s
vars == <<in, s>>

Count(kind) == Cardinality({i \in DOMAIN in : in[i].k = kind})
Allowed(k) ==
   /\ k = "b" => (Count("b") < MaxB /\ (Strict => s.st = "S"))
   /\ k = "e" => IF Strict THEN s.st # "S" ELSE Count("e") < MaxB
   /\ k = "j" => (Count("j") < MaxJ /\ (JumboInside => s.st # "S"))

Init == in = <<>> /\ \E n \in Rings : s = ImplInit(n, <<>>)

Step(k, c) ==
   /\ s.status = "run" /\ Len(in) < MaxLen /\ Allowed(k)
   /\ LET e == [id |-> Len(in) + 1, clk |-> c, k |-> k, sz |-> SzOf(k)] IN
      /\ in' = Append(in, e)
      /\ s' = Process([s EXCEPT !.buf = Append(@, e)], Len(in) + 1)

Next == \E k \in {"n", "b", "e", "j"}, c \in 0..MaxClock : Step(k, c)
Spec == Init /\ [][Next]_vars

-----------------------------------------------------------------------------
(*                               INVARIANTS                                *)

\* Impl => Property, for the stream read so far taken as the whole input
Refinement == Conforms(in, s.n, Outcome(s), s.buf)

\* the on-line machine is the function Run: Tool(in, n) = [Outcome(s), s.buf]
RunAgrees == Run(in, s.n) = s

\* Idempotent(Tool, in, s.n), with Tool(in, s.n) taken from the state (RunAgrees)
IdempotentInv ==
   (Outcome(s) = "ok" /\ OnlyRegionsUnsorted(in)) =>
       LET r == Run(s.buf, s.n)
       IN /\ r.buf = s.buf
          /\ r.status \in {"run", "fail"}
          /\ WithinLookBack(s.buf, s.n) => r.status = "run"
IdempotentDef == Idempotent(Tool, in, s.n)      \* the definition itself (small configurations)

\* the preconditions are not stronger than needed: with only regions
\* unsorted the code succeeds exactly when the look back suffices
Tight == OnlyRegionsUnsorted(in) => ((Outcome(s) = "ok") <=> WithinLookBack(in, s.n))

\* after a successful run on a stream that satisfies the preconditions check
\* mode passes and the result satisfies the preconditions again
AfterSort == (OnlyRegionsUnsorted(in) /\ Outcome(s) = "ok") =>
                 /\ CheckModePasses(s.buf)
                 /\ OnlyRegionsUnsorted([i \in DOMAIN s.buf |-> [s.buf[i] EXCEPT !.id = i]])

\* lemmas about the property layer itself
Lemmas ==
   /\ WellFormed(in)
   /\ SortedStablePermutation(in, StableSort(in))
   /\ PrefixUntouched(in, StableSort(in))
   /\ \A i \in 1..(FirstMoved(in) - 1) : StableSort(in)[i] = in[i]
   /\ FirstMoved(in) <= Len(in) => StableSort(in)[FirstMoved(in)] # in[FirstMoved(in)]

\* the automaton of stream_winsort and the declarative Regions agree
RegionAgree ==
   LET rs == Regions(in)
       lastend == IF rs = {} THEN 0 ELSE MaxOf({r[2] : r \in rs})
   IN s.status = "run" => ((s.st # "S") <=> (\E i \in (lastend + 1)..Len(in) : in[i].k = "b"))

\* the ring holds the offsets of the last min(Len, n-1) events, oldest at head
RingInv ==
   s.status = "run" =>
     LET cnt == (s.tail - s.head + s.n) % s.n
         L == Len(s.buf)
     IN /\ cnt = (IF L < s.n - 1 THEN L ELSE s.n - 1)
        /\ \A j \in 0..(cnt - 1) : s.ev[(s.head + j) % s.n] = Off(s.buf, L - cnt + 1 + j)

-----------------------------------------------------------------------------
(*                                 EXPORT                                  *)
Ids(q) == [i \in DOMAIN q |-> q[i].id]
EmuShape(q) ==       \* first event can be OHx, last can be OHe
   /\ Len(q) >= 2 /\ q[1].k = "n" /\ q[Len(q)].k = "n"
   /\ \A i \in DOMAIN q : q[1].clk <= q[i].clk /\ q[i].clk <= q[Len(q)].clk
\* streams worth a replay on the real tool: they end where a sort plan has just
\* been executed (or an empty region closed), or they can be fed to ovniemu
NonEmptyRegions(q) == {r \in Regions(q) : r[2] > r[1] + 1}
ExportSel ==
   LET e == Expected(in', s'.n)
       L == Len(in')
   IN /\ in'[L].k = "e" \/ EmuShape(in') \/ L <= 2
      /\ \/ e = "sorted" /\ NonEmptyRegions(in') # {} /\ FirstMoved(in') <= L
         \/ e = "sorted" /\ NonEmptyRegions(in') # {} /\ L <= ExportUnspecLen + 2
         \/ e = "mayfail" /\ L <= ExportUnspecLen + 1
         \/ e = "mayfail" /\ L <= ExportUnspecLen + 2 /\ s'.n >= 4
         \/ L <= ExportUnspecLen
\* what the harness needs to replay one stream: the input, what the property
\* demands (class, the stable order, first event that may move, whether a second
\* run must succeed) and what the implementation layer predicts
ExportRec(inp, S) ==
   [n |-> S.n,
    k |-> [i \in DOMAIN inp |-> inp[i].k],
    c |-> [i \in DOMAIN inp |-> inp[i].clk],
    exp |-> Expected(inp, S.n),
    order |-> Ids(StableSort(inp)),
    fm |-> FirstMoved(inp),
    nreg |-> Cardinality(NonEmptyRegions(inp)),
    again |-> WithinLookBack(StableSort(inp), S.n),
    impl |-> Outcome(S),
    isorted |-> Sorted(S.buf),
    iorder |-> Ids(S.buf),
    emu |-> EmuShape(inp)]
Export == ExportSel => PrintT(<<"TR", ToJson(ExportRec(in', s'))>>)

\* the old, too strong reading of "sorting again changes nothing" (the second
\* run also succeeds): refuted by TLC from 7 events on, kept as a witness
SecondRunSucceeds ==
   (Outcome(s) = "ok" /\ OnlyRegionsUnsorted(in)) => Run(s.buf, s.n).status = "run"
=============================================================================
