SPECIFICATION Spec
CONSTANTS
  MaxLen = 5
  MaxClock = 2
  Rings <- MCRings
  MaxB = 2
  MaxJ = 1
  Strict = TRUE
  JumboInside = TRUE
  Variant = "code"
INVARIANTS Refinement
ACTION_CONSTRAINT Export
CHECK_DEADLOCK FALSE
