SPECIFICATION Spec
CONSTANTS
  N = 2
  Vals = {0, 5, 6}
  Def = 9
  Variant = "code"
  MaxEvents = 2
  MaxWrites = 2
CONSTRAINT Bound
CONSTRAINT Export
INVARIANTS View NoStaleCallback DirtyListDrains
CHECK_DEADLOCK FALSE
