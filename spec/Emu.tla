-------------------------------- MODULE Emu --------------------------------
(* Reference semantics of ovniemu, property layer: one Step per replayed
   event, Finish at the end of the trace.  Composition of
     EmuCore   - thread life-cycle and CPU occupancy      (C04, C05)
     channels  - per-thread model channels: stacks / single values driven by
                 the event tables of the eight models      (C08)
     views     - what thread and CPU timelines must show   (C06)
   (tasks, marks and breakdown are added by the modules extending this one)

   The event tables are data: module EventData, generated once from
   spec/data/events.json (transcribed from the documentation and the model
   tables) and committed.                                                 *)
EXTENDS EmuCore, EventData, TLC

VARIABLES ch,        \* [thread -> [channel key -> sequence of values]]  (single = length <= 1)
          lint       \* linter mode (-l)

emuVars == <<coreVars, ch, lint>>

MaxStack == 512                    \* MAX_CHAN_STACK

Top(s) == IF s = <<>> THEN 0 ELSE s[Len(s)]

Enabled(mc) == mc \in sys.models   \* models required by the trace (or all forced)

\* thread-state precondition of a model's handler
StateOk(mc, t) ==
   LET r == ModelInfo[mc].req IN
   /\ (r = "running" => IsRunning(thState[t]))
   /\ (r = "active"  => IsActive(thState[t]))
   /\ (ModelInfo[mc].noooc => ~ooc[t])

-----------------------------------------------------------------------------
(* Table-driven events: push / pop / set / ign on one channel of the thread *)
COut(ok, un, c) == [ok |-> ok, un |-> un, c |-> c]

ChanEvent(e) ==
   LET t == e.th
       i == EvInfo[e.m]
       s == ch[t][i.k]
       info == ChanInfo[i.k]
   IN
   CASE i.act = "ign"  -> COut(TRUE, FALSE, ch[t])
     [] i.act = "push" ->
          IF Top(s) = i.v /\ ~info.dup
          THEN COut(FALSE, TRUE, ch[t])        \* immediate re-entry: outside C08's claim (code refuses)
          ELSE IF Len(s) >= MaxStack THEN COut(FALSE, FALSE, ch[t])
          ELSE COut(TRUE, FALSE, [ch[t] EXCEPT ![i.k] = Append(s, i.v)])
     [] i.act = "pop"  ->
          IF s = <<>> \/ Top(s) # i.v THEN COut(FALSE, FALSE, ch[t])
          ELSE COut(TRUE, FALSE, [ch[t] EXCEPT ![i.k] = SubSeq(s, 1, Len(s) - 1)])
     [] i.act = "set"  ->
          \* single channel; value 0 = null.  Writing the value it already has
          \* is refused unless the channel allows duplicates.
          IF Top(s) = i.v /\ ~info.dup
          THEN COut(FALSE, i.k # "ovni.flush", ch[t])
          ELSE COut(TRUE, FALSE, [ch[t] EXCEPT ![i.k] = IF i.v = 0 THEN <<>> ELSE <<i.v>>])

-----------------------------------------------------------------------------
(* Views (C06): what each timeline shows for a model channel *)
Cond(mode, s) == CASE mode = "ANY" -> TRUE
                   [] mode = "RUN" -> IsRunning(s)
                   [] mode = "ACT" -> IsActive(s)

ViewKeys == {k \in ChanKeys : ChanInfo[k].ty > 0 /\ Enabled(ChanInfo[k].model)}

ChanThreadCells ==
   {<<"t", t, ChanInfo[k].ty, Top(ch[t][k])>> :
      <<t, k>> \in {tk \in Threads \X ViewKeys :
                      /\ Top(ch[tk[1]][tk[2]]) # 0
                      /\ Cond(ChanInfo[tk[2]].th, thState[tk[1]])}}

ChanCpuCells ==
   {<<"c", c, ChanInfo[k].ty, Top(ch[TheRunning(c)][k])>> :
      <<c, k>> \in {ck \in Cpus \X ViewKeys :
                      /\ ChanInfo[ck[2]].cpu
                      /\ NRun(ck[1], thState, thCpu) = 1
                      /\ Top(ch[TheRunning(ck[1])][ck[2]]) # 0}}

\* cells a CPU timeline MAY show when no single thread runs on it: the
\* quantity's idle default (C06: "empty, or the quantity's idle default")
CpuDefaultCells ==
   {<<"c", c, ChanInfo[k].ty, ChanInfo[k].cpudef>> :
      <<c, k>> \in {ck \in Cpus \X ViewKeys :
                      ChanInfo[ck[2]].cpudef # 0 /\ NRun(ck[1], thState, thCpu) # 1}}

View == ThreadCells \cup CpuCells \cup ChanThreadCells \cup ChanCpuCells

-----------------------------------------------------------------------------
EmptyChans == [k \in ChanKeys |-> IF ChanInfo[k].init = 0 THEN <<>> ELSE <<ChanInfo[k].init>>]

InitSys(s, l) ==
   /\ sys = s
   /\ thState = [t \in 1..Len(s.threads) |-> "unknown"]
   /\ thCpu = [t \in 1..Len(s.threads) |-> 0]
   /\ ooc = [t \in 1..Len(s.threads) |-> FALSE]
   /\ ch = [t \in 1..Len(s.threads) |-> EmptyChans]
   /\ failed = FALSE /\ unspec = FALSE /\ lint = l

Fail  == failed' = TRUE /\ UNCHANGED <<sys, thState, thCpu, ooc, ch, unspec, lint>>
Undef == unspec' = TRUE /\ UNCHANGED <<sys, thState, thCpu, ooc, ch, failed, lint>>

\* kernel context switch also toggles out-of-CPU
OocAfter(e) == IF e.m = "KCO" THEN TRUE ELSE IF e.m = "KCI" THEN FALSE ELSE ooc[e.th]

Step(e) ==
   LET mc == e.mc t == e.th IN
   IF failed \/ unspec THEN UNCHANGED emuVars      \* nothing is compared after that
   ELSE IF mc \notin ModelChars \/ ~Enabled(mc) THEN Fail
   ELSE IF ~StateOk(mc, t) THEN Fail
   ELSE IF IsThreadEvent(e.m) THEN
        LET o == ThreadEvent(e) IN
        IF o.un THEN Undef
        ELSE IF ~o.ok THEN Fail
        ELSE /\ thState' = o.ts /\ thCpu' = o.tc
             /\ UNCHANGED <<sys, ooc, ch, failed, unspec, lint>>
   ELSE IF e.m \in TableEvents THEN
        LET o == ChanEvent(e) IN
        IF o.un THEN Undef
        ELSE IF ~o.ok THEN Fail
        ELSE /\ ch' = [ch EXCEPT ![t] = o.c]
             /\ ooc' = [ooc EXCEPT ![t] = OocAfter(e)]
             /\ UNCHANGED <<sys, thState, thCpu, failed, unspec, lint>>
   ELSE IF IgnoredEvent(e.m) THEN UNCHANGED emuVars
   ELSE Fail

\* end of trace: verdict of the emulator
OpenRegions == \E t \in Threads : \E k \in ChanKeys :
                  ChanInfo[k].lint /\ Enabled(ChanInfo[k].model) /\ ch[t][k] # <<>>

Verdict == IF failed THEN "fail"
           ELSE IF ~AllDead THEN "fail"
           ELSE IF lint /\ OpenRegions THEN "fail"
           ELSE "ok"
=============================================================================
