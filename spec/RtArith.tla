---------------------------- MODULE RtArith ----------------------------
(* Size arithmetic of the runtime's staging buffer (src/rt/ovni.c):
   ovni_ev_size / ovni_payload_size, the fit tests of ovni_ev_add and
   ovni_ev_add_jumbo.  Shared by the sequence-faithful model RtStream and
   the size-abstracted real-capacity model RtStreamAbs, so that both check
   the same arithmetic.                                                   *)
EXTENDS Naturals

CONSTANTS
  \* OVNI_MAX_EV_BUF
  \* @type: Int;
  CAP,
  \* TRUE: code after "fix: runtime: nested flush markers"; FALSE: the arithmetic of the pinned commit (negative cfg)
  \* @type: Bool;
  Reserve

HdrSize   == 12                      \* sizeof(struct ovni_ev_header)
StreamHdr == 8                       \* magic + version
JumboPay  == 4                       \* uint32 size field

\* legal payload sizes of a normal event (trace_spec.md): 0 or 2..16
LegalPay == {0} \cup (2..16)

NormalSize(pay) == HdrSize + pay
JumboHead       == HdrSize + JumboPay          \* evsize in ovni_ev_add_jumbo
JumboSize(n)    == JumboHead + n               \* totalsize

\* payload size nibble written in the flags byte, and its decoding
Nibble(pay)     == IF pay = 0 THEN 0 ELSE pay - 1
PayOfNibble(nb) == IF nb = 0 THEN 0 ELSE nb + 1

\* "Check if the event fits or flush first otherwise"
NeedFlush(evlen, size) == evlen + size >= CAP

\* ovni_ev_add_jumbo: die("event too large")
JumboTooLarge(n) == JumboSize(n) >= CAP

\* After a forced flush the two 12-byte markers are appended behind the user
\* event through ovni_ev_add.  If they do not fit, ovni_ev_add flushes again
\* and emits its own pair inside the outer one.  The fixed code writes the
\* big event out first when the markers would not fit.
MarkersFit(evlen) == ~NeedFlush(evlen, 2 * HdrSize)
=============================================================================
