------------------------------- MODULE System -------------------------------
(* Metadata merge of the emulator (C15): src/emu/system.c create_system,
   loom.c load_cpus, proc.c load_appid / load_rank, sort criteria, global
   indices.

   A trace is a SEQUENCE of stream metadata records, in the order the
   emulator processes them:
     [loom, pid, tid, app, rank, nranks, cpus]
       loom   : 1..9     (loom name "node<loom>.x")
       app    : app id, 0 = attribute absent
       rank   : -1 = absent;  nranks : 0 = absent
       cpus   : sequence of <<index, phyid>>, <<>> = attribute absent

   Property layer: Consistent(S) and Rows(S) are functions of the UNION of
   the metadata (they do not look at positions in S).
   Implementation layer: Merge(S) folds the streams one by one with the
   first-come conflict detection of the code, then sorts.
   Checked by TLC for every distribution / order / single contradiction:
   Merge(S) agrees with the property layer.                              *)
EXTENDS Naturals, Integers, Sequences, FiniteSets, TLC, Json

Range(s) == {s[i] : i \in 1..Len(s)}
Max(S) == CHOOSE x \in S : \A y \in S : y <= x
Min(S) == CHOOSE x \in S : \A y \in S : x <= y

\* sort a finite set of integers ascending
RECURSIVE SortSet(_)
SortSet(S) == IF S = {} THEN <<>> ELSE <<Min(S)>> \o SortSet(S \ {Min(S)})

-----------------------------------------------------------------------------
(* Property layer *)
LoomsOf(S) == {m.loom : m \in Range(S)}
ProcsOf(S, l) == {m.pid : m \in {x \in Range(S) : x.loom = l}}
OfProc(S, l, p) == {i \in 1..Len(S) : S[i].loom = l /\ S[i].pid = p}
OfLoom(S, l) == {i \in 1..Len(S) : S[i].loom = l}

Apps(S, l, p)   == {S[i].app : i \in OfProc(S, l, p)} \ {0}
Ranks(S, l, p)  == {S[i].rank : i \in {j \in OfProc(S, l, p) : S[j].rank # -1}}
\* nranks is only read from streams that carry a rank
NRanks(S, l, p) == {S[i].nranks : i \in {j \in OfProc(S, l, p) : S[j].rank # -1}}
CpuPairs(S, l)  == UNION {Range(S[i].cpus) : i \in OfLoom(S, l)}

ProcHasRank(S, l, p) == Ranks(S, l, p) # {}
LoomHasRank(S, l) == \E p \in ProcsOf(S, l) : ProcHasRank(S, l, p)

Consistent(S) ==
   /\ \A l \in LoomsOf(S) : \A p \in ProcsOf(S, l) :
        /\ Cardinality(Apps(S, l, p)) = 1 /\ \A a \in Apps(S, l, p) : a > 0
        /\ Cardinality(Ranks(S, l, p)) <= 1
        /\ \A r \in Ranks(S, l, p) : r >= 0
        /\ ProcHasRank(S, l, p) =>
              /\ Cardinality(NRanks(S, l, p)) = 1
              /\ \A n \in NRanks(S, l, p) : n > 0 /\ \A r \in Ranks(S, l, p) : r < n
        \* no two streams of a process with the same tid
        /\ \A i, j \in OfProc(S, l, p) : i # j => S[i].tid # S[j].tid
   /\ \A l \in LoomsOf(S) :
        LET P == CpuPairs(S, l) IN
        /\ P # {}
        /\ \A a, b \in P : (a[1] = b[1]) <=> (a[2] = b[2])          \* index <-> phyid bijection
        /\ \A a \in P : a[1] >= 0 /\ a[2] >= 0
        /\ {a[1] : a \in P} = 0..(Cardinality(P) - 1)              \* indices are 0..n-1
        \* an explicitly empty CPU list is refused, modelled as cpus = <<<<-1,-1>>>>
        /\ LoomHasRank(S, l) => \A p \in ProcsOf(S, l) : ProcHasRank(S, l, p)

TheApp(S, l, p)  == CHOOSE a \in Apps(S, l, p) : TRUE
TheRank(S, l, p) == CHOOSE r \in Ranks(S, l, p) : TRUE
RankMin(S, l) == Min({TheRank(S, l, p) : p \in ProcsOf(S, l)})

SortByRank(S) == \A l \in LoomsOf(S) : LoomHasRank(S, l)

\* loom order: by minimum rank when every loom has ranks, else by name
\* (names node1.x .. node9.x sort like the numbers)
LoomKey(S, l) == IF SortByRank(S) THEN RankMin(S, l) ELSE l
\* equal keys: order not defined by the property
AmbiguousOrder(S) ==
   \/ \E l1, l2 \in LoomsOf(S) : l1 # l2 /\ LoomKey(S, l1) = LoomKey(S, l2)
   \/ \E l \in LoomsOf(S) : LoomHasRank(S, l) /\
         \E p1, p2 \in ProcsOf(S, l) : p1 # p2 /\ TheRank(S, l, p1) = TheRank(S, l, p2)

RECURSIVE SortBy(_, _)
SortBy(X, key) ==          \* key: a function on X
   IF X = {} THEN <<>>
   ELSE LET x == CHOOSE a \in X : \A b \in X : key[a] <= key[b]
        IN  <<x>> \o SortBy(X \ {x}, key)

LoomOrder(S) == SortBy(LoomsOf(S), [l \in LoomsOf(S) |-> LoomKey(S, l)])
ProcOrder(S, l) == IF LoomHasRank(S, l)
                   THEN SortBy(ProcsOf(S, l), [p \in ProcsOf(S, l) |-> TheRank(S, l, p)])
                   ELSE SortSet(ProcsOf(S, l))
TidsOf(S, l, p) == SortSet({S[i].tid : i \in OfProc(S, l, p)})

RECURSIVE Concat(_)
Concat(ss) == IF ss = <<>> THEN <<>> ELSE Head(ss) \o Concat(Tail(ss))

\* thread rows: <<app id, tid>>  (row label "TH <app>.<tid>")
ThreadRows(S) ==
   Concat([i \in 1..Len(LoomOrder(S)) |->
      LET l == LoomOrder(S)[i] IN
      Concat([j \in 1..Len(ProcOrder(S, l)) |->
         LET p == ProcOrder(S, l)[j] IN
         [k \in 1..Len(TidsOf(S, l, p)) |-> <<TheApp(S, l, p), TidsOf(S, l, p)[k]>>]])])

\* cpu rows: <<loom position (0-based), phyid>>, phyid -1 = the virtual CPU, last per loom
CpuRows(S) ==
   Concat([i \in 1..Len(LoomOrder(S)) |->
      LET l == LoomOrder(S)[i]
          phys == SortSet({a[2] : a \in CpuPairs(S, l)}) IN
      [k \in 1..Len(phys) |-> <<i - 1, phys[k]>>] \o <<<<i - 1, -1>>>>])

Expected(S) == IF ~Consistent(S) THEN [verdict |-> "reject", trows |-> <<>>, crows |-> <<>>]
               ELSE IF AmbiguousOrder(S) THEN [verdict |-> "unspecified", trows |-> <<>>, crows |-> <<>>]
               ELSE [verdict |-> "ok", trows |-> ThreadRows(S), crows |-> CpuRows(S)]

-----------------------------------------------------------------------------
(* Implementation layer: sequential merge as in create_system().
   State of the fold: [ok, looms (first-come sequence), procs, cpus, tids]
     procs : function <<l,p>> -> [app, rank, nranks]
     cpus  : function l -> set of <<index, phyid>>
     tids  : set of <<l, p, tid>>                                        *)
St0 == [ok |-> TRUE, looms |-> <<>>, procs |-> <<>>, cpus |-> <<>>, tids |-> {}]

Has(f, k) == k \in DOMAIN f
Put(f, k, v) == (k :> v) @@ f

\* load_cpus for one stream: first-come, conflicts refused
RECURSIVE LoadCpus(_, _, _)
LoadCpus(cs, list, i) ==      \* cs: [ok, set]
   IF i > Len(list) \/ ~cs.ok THEN cs
   ELSE LET idx == list[i][1]  phy == list[i][2]
            byPhy == {a \in cs.set : a[2] = phy}
            byIdx == {a \in cs.set : a[1] = idx}
        IN  IF idx < 0 THEN [cs EXCEPT !.ok = FALSE]
            ELSE IF byPhy # {} THEN
                 IF \A a \in byPhy : a[1] = idx THEN LoadCpus(cs, list, i + 1)   \* duplicate, ignored
                 ELSE [cs EXCEPT !.ok = FALSE]                                    \* mismatch index
            ELSE IF byIdx # {} THEN [cs EXCEPT !.ok = FALSE]                      \* index redefined
            ELSE IF phy < 0 THEN [cs EXCEPT !.ok = FALSE]
            ELSE LoadCpus([cs EXCEPT !.set = cs.set \cup {<<idx, phy>>}], list, i + 1)

MergeOne(st, m) ==
   IF ~st.ok THEN st
   ELSE
   LET l == m.loom
       looms1 == IF l \in Range(st.looms) THEN st.looms ELSE Append(st.looms, l)
       cs0 == [ok |-> TRUE, set |-> IF Has(st.cpus, l) THEN st.cpus[l] ELSE {}]
       cs == LoadCpus(cs0, m.cpus, 1)
       pk == <<l, m.pid>>
       p0 == IF Has(st.procs, pk) THEN st.procs[pk] ELSE [app |-> 0, rank |-> -1, nranks |-> 0]
       \* load_appid
       appBad == m.app # 0 /\ ((p0.app # 0 /\ p0.app # m.app) \/ m.app <= 0)
       p1 == IF m.app # 0 THEN [p0 EXCEPT !.app = m.app] ELSE p0
       \* load_rank
       rankBad == m.rank # -1 /\
                  (\/ m.rank < 0
                   \/ (p1.rank >= 0 /\ p1.rank # m.rank)
                   \/ m.nranks = 0 \/ m.nranks < 0
                   \/ (p1.nranks > 0 /\ p1.nranks # m.nranks)
                   \/ m.rank >= m.nranks)
       p2 == IF m.rank # -1 THEN [p1 EXCEPT !.rank = m.rank, !.nranks = m.nranks] ELSE p1
       tk == <<l, m.pid, m.tid>>
   IN
   IF ~cs.ok \/ appBad \/ rankBad \/ tk \in st.tids THEN [st EXCEPT !.ok = FALSE]
   ELSE [ok |-> TRUE, looms |-> looms1, procs |-> Put(st.procs, pk, p2),
         cpus |-> Put(st.cpus, l, cs.set), tids |-> st.tids \cup {tk}]

RECURSIVE Fold(_, _, _)
Fold(st, S, i) == IF i > Len(S) THEN st ELSE Fold(MergeOne(st, S[i]), S, i + 1)

\* set_sort_criteria / loom_set_rank_min / *_init_end
InitEndOk(st) ==
   /\ \A pk \in DOMAIN st.procs : st.procs[pk].app > 0
   /\ \A l \in Range(st.looms) :
        LET P == st.cpus[l]
            procs == {pk \in DOMAIN st.procs : pk[1] = l}
            some == \E pk \in procs : st.procs[pk].rank >= 0 IN
        /\ P # {}
        /\ \A a \in P : a[1] < Cardinality(P)
        /\ \A a, b \in P : a[1] = b[1] => a = b
        /\ some => \A pk \in procs : st.procs[pk].rank >= 0

ImplVerdict(S) == LET st == Fold(St0, S, 1) IN
                  IF st.ok /\ InitEndOk(st) THEN "ok" ELSE "reject"

\* the implementation computes the same rows from its merged tables: the
\* sorts are total orders on the merged data except for equal keys
ImplAgrees(S) ==
   LET e == Expected(S) IN
   CASE e.verdict = "reject" -> ImplVerdict(S) = "reject"
     [] e.verdict = "ok" -> ImplVerdict(S) = "ok"
     [] OTHER -> TRUE

-----------------------------------------------------------------------------
(* Bounded family of traces *)
M(l, p, t, a, r, n, c) == [loom |-> l, pid |-> p, tid |-> t, app |-> a, rank |-> r, nranks |-> n, cpus |-> c]

\* base system: loom 1 {proc 40 (tids 11,12), proc 30 (tid 21)}, loom 2 {proc 50 (tids 31,32)}
\* ranks (when present): proc 40 -> 1, proc 30 -> 2, proc 50 -> 0  (rank order differs from pid/name order)
Slots == <<[l |-> 1, p |-> 40, t |-> 12], [l |-> 1, p |-> 40, t |-> 11], [l |-> 1, p |-> 30, t |-> 21],
           [l |-> 2, p |-> 50, t |-> 32], [l |-> 2, p |-> 50, t |-> 31]>>
AppOf(p) == CASE p = 40 -> 2 [] p = 30 -> 1 [] p = 50 -> 3
RankOf(p) == CASE p = 40 -> 1 [] p = 30 -> 2 [] p = 50 -> 0
CpusOfLoom(l) == IF l = 1 THEN {<<0, 11>>, <<1, 10>>} ELSE {<<0, 20>>}

\* a distribution: which slots carry app / rank, and for each slot its cpu list
CONSTANT WithOrders   \* TRUE: all 120 processing orders; FALSE: a few
VARIABLES S, tag
vars == <<S, tag>>

Perms(n) == {f \in [1..n -> 1..n] : \A i, j \in 1..n : i # j => f[i] # f[j]}
Orders == IF WithOrders THEN Perms(5)
          ELSE {<<1, 2, 3, 4, 5>>, <<5, 4, 3, 2, 1>>, <<3, 5, 1, 4, 2>>}

NonEmptySubsets(X) == SUBSET X \ {{}}
SlotsOfProc(p) == {i \in 1..5 : Slots[i].p = p}
SlotsOfLoom(l) == {i \in 1..5 : Slots[i].l = l}

\* cpu distributions of a loom: each cpu pair is carried by one or two slots of the loom
CpuDist(l) == [CpusOfLoom(l) -> {X \in NonEmptySubsets(SlotsOfLoom(l)) :
                                    Cardinality(X) <= (IF WithOrders THEN 2 ELSE 1) \/ X = SlotsOfLoom(l)}]
ListOf(P, rev) == LET s == SortBy(P, [a \in P |-> a[1]]) IN
                  IF rev THEN [i \in 1..Len(s) |-> s[Len(s) + 1 - i]] ELSE s

Build(appS, rankS, d1, d2, rev, ord) ==
   LET rec(i) ==
         LET sl == Slots[i]
             mine == {a \in CpusOfLoom(sl.l) : i \in (IF sl.l = 1 THEN d1[a] ELSE d2[a])} IN
         M(sl.l, sl.p, sl.t,
           IF i \in appS THEN AppOf(sl.p) ELSE 0,
           IF i \in rankS THEN RankOf(sl.p) ELSE -1,
           IF i \in rankS THEN 4 ELSE 0,
           ListOf(mine, rev))
   IN [k \in 1..5 |-> rec(ord[k])]

\* app on a non-empty subset of the slots of each process; rank on none or
\* on a non-empty subset of the slots of each process
AppChoices == {A \in SUBSET (1..5) : \A p \in {40, 30, 50} : A \cap SlotsOfProc(p) # {}}
RankChoices == {{}} \cup AppChoices

\* single contradictions applied to one canonical valid trace
Canon(o, r) == Build({1, 3, 4}, r, [a \in CpusOfLoom(1) |-> {1, 3}], [a \in CpusOfLoom(2) |-> {5}], FALSE, o)
Mut(s, i, f, v) == [s EXCEPT ![i] = [s[i] EXCEPT ![f] = v]]
Pos(s, l, p, t) == CHOOSE i \in 1..Len(s) : s[i].loom = l /\ s[i].pid = p /\ s[i].tid = t
Contradictions(o) ==
   LET c == Canon(o, {}) cr == Canon(o, {1, 3, 5})
       a == Pos(c, 1, 40, 11) b == Pos(c, 1, 40, 12) d == Pos(c, 1, 30, 21) e == Pos(c, 2, 50, 31)
       g == Pos(c, 2, 50, 32) IN
   {<<"app-mismatch",   Mut(c, a, "app", 7)>>,
    <<"app-missing",    Mut(c, d, "app", 0)>>,
    <<"app-negative",   Mut(Mut(c, b, "app", -2), a, "app", -2)>>,
    <<"rank-mismatch",  Mut(Mut(cr, a, "rank", 3), a, "nranks", 4)>>,
    <<"nranks-mismatch", Mut(Mut(cr, a, "rank", 1), a, "nranks", 5)>>,
    <<"nranks-missing", Mut(cr, d, "nranks", 0)>>,
    <<"rank-ge-nranks", Mut(cr, d, "rank", 4)>>,
    <<"rank-partial",   Mut(Mut(cr, d, "rank", -1), d, "nranks", 0)>>,
    <<"index-two-phyids", Mut(c, a, "cpus", <<<<0, 15>>>>)>>,
    <<"phyid-two-indices", Mut(c, a, "cpus", <<<<1, 11>>>>)>>,
    <<"index-gap",      Mut(c, a, "cpus", <<<<3, 17>>>>)>>,
    <<"cpus-missing",   Mut(c, e, "cpus", <<>>)>>,
    <<"cpu-negative-index", Mut(c, a, "cpus", <<<<-1, 17>>>>)>>,
    <<"duplicate-tid",  Mut(c, a, "tid", 12)>>,
    <<"loom2-only-ranks", Mut(Mut(c, e, "rank", 0), e, "nranks", 4)>>,
    <<"reverse-cpu-order", Mut(c, g, "cpus", <<<<0, 20>>>>)>>}

\* two-level enumeration (so that TLC's workers share the work): the initial
\* states choose who carries app / rank, the step chooses CPU lists and order
Init == /\ S = <<>>
        /\ \/ \E a \in AppChoices, r \in RankChoices : tag = <<"seed", a, r>>
           \/ tag = <<"seed-contradictions">>
Next == \/ /\ tag[1] = "seed"
           /\ \E d1 \in CpuDist(1), d2 \in CpuDist(2), rev \in BOOLEAN, o \in Orders :
                 S' = Build(tag[2], tag[3], d1, d2, rev, o)
           /\ tag' = <<"valid">>
        \/ /\ tag[1] = "seed-contradictions"
           /\ \E o \in Orders : \E x \in Contradictions(o) : S' = x[2] /\ tag' = <<x[1]>>
Spec == Init /\ [][Next]_vars
IsSeed == S = <<>>

\* ---- what TLC checks on every trace of the family
MergeMatchesUnion == IsSeed \/ ImplAgrees(S)
ValidAreAccepted == (~IsSeed /\ tag = <<"valid">>) => Expected(S).verdict = "ok"
\* distribution independence: the rows of every valid trace are those of the canonical one
\* with the same rank choice (same union of metadata)
HasRanks == \E i \in 1..Len(S) : S[i].rank # -1
RowsIndependent ==
   (~IsSeed /\ tag = <<"valid">>) =>
      LET c == Canon(<<1, 2, 3, 4, 5>>, IF HasRanks THEN {1, 3, 5} ELSE {}) IN
      /\ Expected(S).trows = Expected(c).trows
      /\ Expected(S).crows = Expected(c).crows

\* deterministic 1-in-SampleMod sample of the valid family for the conformance step
CONSTANT SampleMod
RECURSIVE HashOf(_, _)
HashOf(s, i) == IF i > Len(s) THEN 0
                ELSE (s[i].tid * i + Len(s[i].cpus) * 7 + s[i].app * 3 + s[i].rank + 1 + HashOf(s, i + 1)) % 9973
ExportInv == (~IsSeed /\ (tag # <<"valid">> \/ HashOf(S, 1) % SampleMod = 0)) => PrintT(<<"TR", ToJson([tag |-> tag[1], streams |-> S, exp |-> Expected(S)])>>)
=============================================================================
