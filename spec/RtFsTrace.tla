------------------------------ MODULE RtFsTrace ------------------------------
(* Trace validation for RtFs.  A log is a concatenation of executions:
     {"c":"scenario", mode, flushes, chunk, rdorder, stale}  start of an execution (stale: bytes of a finished
                                                             earlier stream found in the final thread directory)
     {"c":<call>, "w":<dir>, "n":<bytes>}                    one system call of libovni as recorded by
                                                             strace, projected to the vocabulary of Script
     {"c":"killed"|"returned"|"aborted", obs, json, flushed, emu, diag}
                                                             how the run ended and what was found on disk:
                                                             obs/json per directory, bytes the thread had
                                                             written to its stream, verdict of ovniemu -l
                                                             on each directory ("ok","fail","none")
   Call records must be exactly the model's next call (so the model's call
   order IS the code's); the final record must show the model's file-system
   state, and the C09 / C10 monitors are evaluated with the OBSERVED emulator
   verdicts.  Executions with an injected I/O error ("mode":"fault") are not
   replayed call by call (the code's recovery paths differ in the calls they
   make); only their outcome is judged.                                    *)
EXTENDS RtFs, Json, IOUtils

Log == ndJsonDeserialize(IOEnv.TRACE)
VARIABLE l, kind       \* kind: "replay" | "fault" | "fault09"
tvars == <<vars, l, kind>>
Rec == Log[l]
Is(c) == l <= Len(Log) /\ Rec.c = c /\ l' = l + 1

ScenOf(r) == [mode |-> r.mode, flushes |-> r.flushes, chunk |-> r.chunk, rdorder |-> r.rdorder,
              accept |-> {8 + Total(r.flushes)}, stale |-> IF "stale" \in DOMAIN r THEN r.stale ELSE 0]
Empty == [mode |-> "direct", flushes |-> <<>>, chunk |-> 1, rdorder |-> "obs_first", accept |-> {}, stale |-> 0]

TInit == l = 1 /\ kind = "replay" /\ Init(Empty)

TScenario ==
   /\ Is("scenario")
   /\ kind' = Rec.kind
   /\ sc' = ScenOf(Rec) /\ pc' = 1
   /\ obs' = [tmp |-> -1, fin |-> IF StaleOf(ScenOf(Rec)) > 0 THEN StaleOf(ScenOf(Rec)) ELSE -1]
   /\ json' = [tmp |-> "absent", fin |-> IF StaleOf(ScenOf(Rec)) > 0 THEN "fin" ELSE "absent"]
   /\ flushed' = 0 /\ status' = "running" /\ fault' = 0 /\ copyfail' = FALSE /\ moveok' = TRUE

IsCall == l <= Len(Log) /\ Rec.c \notin {"scenario", "killed", "returned", "aborted", "killed_mt", "returned_mt", "aborted_mt"}

\* one recorded call = the model's next call
TCall ==
   /\ IsCall /\ kind = "replay" /\ status = "running"
   /\ Cur.c = Rec.c /\ Cur.w = Rec.w
   /\ (Cur.n # 0 => Cur.n = Rec.n)
   /\ Step /\ l' = l + 1 /\ UNCHANGED kind

ObsState(r) == /\ r.obs.tmp = obs.tmp /\ r.obs.fin = obs.fin
               /\ r.json.tmp = json.tmp /\ r.json.fin = json.fin
               /\ r.flushed = flushed

\* monitors on what was observed
ObsC09a(r) == \A d \in {"tmp", "fin"} : r.emu[d] = "ok" => r.obs[d] >= r.flushed
ObsC09b(r) == r.json.fin = "fin" => r.obs.fin >= r.flushed
ObsComplete(r, d) == r.json[d] = "fin" /\ r.obs[d] >= r.flushed /\ r.emu[d] = "ok"
ObsC10a(r) == ObsComplete(r, "tmp") \/ ObsComplete(r, "fin")
ObsC10b(r) == r.flushed > 0 => (r.obs.tmp >= r.flushed \/ r.obs.fin >= r.flushed)

TKilled ==
   /\ Is("killed") /\ status = "running"
   /\ (kind = "replay" => ObsState(Rec))
   /\ ObsC09a(Rec) /\ ObsC09b(Rec)
   /\ status' = "killed" /\ UNCHANGED <<sc, pc, obs, json, flushed, fault, copyfail, moveok, kind>>

\* kind "fault09": an execution with an injected I/O error judged for C09 only ("a stream is marked
\* finished only after all its flushed bytes are in their final place" also on the error paths)
\* kind "faultloss": the injected fault itself destroys data (a close that reports lost writes): the runtime
\* must still not return normally without a complete copy; terminating with a diagnostic is all it can do
TReturned ==
   /\ Is("returned") /\ status = "running"
   /\ (kind = "replay" => (Cur.c = "return_free" /\ ObsState(Rec)))
   /\ (kind # "fault09" => ObsC10a(Rec)) /\ ObsC09a(Rec) /\ ObsC09b(Rec)
   /\ status' = "returned" /\ UNCHANGED <<sc, pc, obs, json, flushed, fault, copyfail, moveok, kind>>

\* die(): abort with a diagnostic; nothing that was flushed may have been deleted
TAborted ==
   /\ Is("aborted") /\ status = "running" /\ kind \in {"fault", "fault09", "faultloss"}
   /\ (kind = "fault" => (Rec.diag /\ ObsC10b(Rec)))
   /\ (kind = "faultloss" => Rec.diag)
   /\ ObsC09a(Rec)
   /\ (kind = "fault09" => ObsC09b(Rec))
   /\ status' = "aborted" /\ UNCHANGED <<sc, pc, obs, json, flushed, fault, copyfail, moveok, kind>>

\* ---- two threads of one process (RtFs2): outcome records carry one entry per stream, the emulator
\* verdicts are those of the whole directory; judged by the monitors alone (kind "mt" / "mt09")
Streams(r) == {r.streams[i] : i \in 1..Len(r.streams)}
MtC09a(r) == \A d \in {"tmp", "fin"} : r.emu[d] = "ok" =>
                \A x \in Streams(r) : x.json[d] # "absent" => x.obs[d] >= x.flushed
MtC09b(r) == \A x \in Streams(r) : x.json.fin = "fin" => x.obs.fin >= x.flushed
MtC10a(r) == \A x \in Streams(r) : \E d \in {"tmp", "fin"} :
                x.json[d] = "fin" /\ x.obs[d] >= x.flushed /\ r.emu[d] = "ok"
MtC10b(r) == \A x \in Streams(r) : x.flushed > 0 => (x.obs.tmp >= x.flushed \/ x.obs.fin >= x.flushed)
MtKeep == UNCHANGED <<sc, pc, obs, json, flushed, fault, copyfail, moveok, kind>>
TKilledMT   == Is("killed_mt") /\ status = "running" /\ kind \in {"mt", "mt09"}
               /\ MtC09a(Rec) /\ MtC09b(Rec) /\ status' = "killed" /\ MtKeep
TReturnedMT == Is("returned_mt") /\ status = "running" /\ kind \in {"mt", "mt09"}
               /\ (kind = "mt" => MtC10a(Rec)) /\ MtC09a(Rec) /\ MtC09b(Rec) /\ status' = "returned" /\ MtKeep
TAbortedMT  == Is("aborted_mt") /\ status = "running" /\ kind \in {"mt", "mt09"}
               /\ (kind = "mt" => (Rec.diag /\ MtC10b(Rec))) /\ MtC09a(Rec) /\ MtC09b(Rec)
               /\ status' = "aborted" /\ MtKeep

TNext == TScenario \/ TCall \/ TKilled \/ TReturned \/ TAborted \/ TKilledMT \/ TReturnedMT \/ TAbortedMT
TSpec == TInit /\ [][TNext]_tvars

Accepted == TLCGet("stats").diameter - 1 = Len(Log)
Report == PrintT(<<"CONSUMED", TLCGet("stats").diameter - 1, Len(Log)>>) /\ Accepted
=============================================================================
