SPECIFICATION Spec
CONSTANTS
  CAP = 56
  Reserve = TRUE
  PaySizes = {0, 2, 16}
  JumboSizes = {0, 7, 20,21,22,23,24,25,26,27,28,29,30,31,32,33,34,35,36,37,38,39}
  MaxCalls = 6
CONSTRAINT Bound
INVARIANTS Fidelity FidelityAtEnd OnlyMarkers HeaderFirst Tiling BufferBound ClockMonotone FlushPaired NoNestedFlush
PROPERTY FlushedAllOnDisk
CHECK_DEADLOCK FALSE
