#!/usr/bin/env python3
"""Developer tool: import a confirmed seeded change into /verif/seeded/<name>/.
usage: import_seed.py <src dir> <name> <property> '<confirm line>' '<detected-by json>'"""
import json, os, shutil, sys
src, name, prop, confirm, det = sys.argv[1:6]
dst = os.path.join(os.path.dirname(os.path.dirname(os.path.abspath(__file__))), "seeded", name)
shutil.rmtree(dst, ignore_errors=True)
os.makedirs(dst)
shutil.copy(os.path.join(src, "patch.diff"), dst)
if os.path.isdir(os.path.join(src, "demo")):
    shutil.copytree(os.path.join(src, "demo"), os.path.join(dst, "demo"),
                    ignore=shutil.ignore_patterns("*.o", "_b", "ovni", "*.obs", "trace*", "__pycache__"))
meta = {}
mp = os.path.join(src, "meta.json")
if os.path.exists(mp):
    try:
        meta = json.load(open(mp))
    except ValueError:
        meta = {"raw": open(mp).read()}
out = {"breaks_property": prop,
       "summary": meta.get("summary", ""),
       "needs_to_manifest": meta.get("needs_to_manifest", ""),
       "files_changed": meta.get("files_changed", []),
       "author": "fresh sub-agent given only the property text and a scratch worktree",
       "confirmed_by_me": confirm,
       "what_i_ran": "harness/confirm_seed.sh (clean worktree: build, demo passes; patch applied: build, 88/88 ctest, demo fails) and harness/seedtest.py <patch> <checks>",
       "checks": json.loads(det)}
json.dump(out, open(os.path.join(dst, "meta.json"), "w"), indent=1)
print("imported", dst)
