SPECIFICATION XSpec
CONSTANTS
  NS = 3
  MaxEv = 2
  Clocks = {0,1,2}
  Offsets <- OffsetsStd
  NL = 2
  Base = 2
  PVariant = "ok"
  MPick = "min"
  HVariant = "ok"
ACTION_CONSTRAINT XExport
CHECK_DEADLOCK FALSE
