/* LD_PRELOAD shim: truthful short writes.
 * With VERIF_SHORTWRITE=<n> in the environment every write() of more than n
 * bytes on a regular file transfers only about 40% of the request (at least
 * 1 byte) and returns that count, as a nearly full disk, a quota or an
 * interrupted write may do.  Everything else is passed through. */
#define _GNU_SOURCE
#include <dlfcn.h>
#include <stdlib.h>
#include <errno.h>
#include <fcntl.h>
#include <stdio.h>
#include <string.h>
#include <sys/stat.h>
#include <time.h>
#include <unistd.h>

ssize_t write(int fd, const void *buf, size_t count)
{
	static ssize_t (*real)(int, const void *, size_t) = NULL;
	static long limit = -2;
	if (!real)
		real = (ssize_t (*)(int, const void *, size_t)) dlsym(RTLD_NEXT, "write");
	if (limit == -2) {
		const char *e = getenv("VERIF_SHORTWRITE");
		limit = e ? atol(e) : -1;
	}
	if (limit >= 0 && (long) count > limit && fd > 2) {
		struct stat st;
		if (fstat(fd, &st) == 0 && S_ISREG(st.st_mode)) {
			size_t part = count * 2 / 5;
			if (part == 0)
				part = 1;
			return real(fd, buf, part);
		}
	}
	return real(fd, buf, count);
}

/* With VERIF_WALLCLOCK_STEP=<n> the wall clock (CLOCK_REALTIME, gettimeofday is not touched) is stepped
 * back by 5 s after its n-th reading, as an NTP step or a VM restore does.  CLOCK_MONOTONIC and the other
 * clocks are passed through: a program that timestamps with a monotonic clock does not notice. */
int clock_gettime(clockid_t id, struct timespec *ts)
{
	static int (*real)(clockid_t, struct timespec *) = NULL;
	static long after = -2;
	static long nread = 0;
	if (!real)
		real = (int (*)(clockid_t, struct timespec *)) dlsym(RTLD_NEXT, "clock_gettime");
	if (after == -2) {
		const char *e = getenv("VERIF_WALLCLOCK_STEP");
		after = e ? atol(e) : -1;
	}
	int ret = real(id, ts);
	if (ret == 0 && after >= 0 && id == CLOCK_REALTIME) {
		if (__atomic_add_fetch(&nread, 1, __ATOMIC_RELAXED) > after)
			ts->tv_sec -= 5;
	}
	return ret;
}

/* With VERIF_CLOSE_LOSS=1 the close() of a file named stream.obs that is open for writing fails with EIO
 * and the data written since the header is lost (the file is cut to 8 bytes first), as a network or
 * quota-limited file system may report deferred write errors only at close.  (stdio's fclose does not come
 * through here: only a direct close() of the stream descriptor.) */
int close(int fd)
{
	static int (*real)(int) = NULL;
	static int on = -1;
	if (!real)
		real = (int (*)(int)) dlsym(RTLD_NEXT, "close");
	if (on == -1)
		on = getenv("VERIF_CLOSE_LOSS") != NULL;
	if (on && fd > 2) {
		char link[64], path[4096];
		snprintf(link, sizeof(link), "/proc/self/fd/%d", fd);
		ssize_t n = readlink(link, path, sizeof(path) - 1);
		int fl = fcntl(fd, F_GETFL);
		if (n > 10 && fl != -1 && (fl & O_ACCMODE) != O_RDONLY) {
			path[n] = 0;
			if (strcmp(path + n - 10, "stream.obs") == 0) {
				if (ftruncate(fd, 8) != 0) { /* keep going */ }
				real(fd);
				errno = EIO;
				return -1;
			}
		}
	}
	return real(fd);
}
